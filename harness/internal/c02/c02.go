// Package c02 checks property C02: loading is deterministic. Every input is
// loaded repeatedly in one process (each repetition re-randomises every Go
// map range), interleaved with the other inputs of its batch in a seeded
// shuffled order (history independence, including inputs with `version:`
// which touch the loader's only package-level state), then with the mapping
// keys of its documents permuted, then once in a fresh process. All results
// must agree with the first one: same success/failure, projects equal under
// the raw comparison diff.Options{Exact:true}, MarshalYAML / MarshalJSON
// bytes identical.
package c02

import (
	"crypto/sha256"
	"encoding/hex"
	"encoding/json"
	"fmt"
	"os"
	"os/exec"
	"path/filepath"
	"regexp"
	"strings"

	"github.com/compose-spec/compose-go/v2/types"

	"verif/harness/internal/core"
	"verif/harness/internal/diff"
	"verif/harness/internal/ld"
)

func init() {
	if len(os.Args) >= 3 && os.Args[1] == "c02-child" {
		childMain(os.Args[2])
		os.Exit(0)
	}
	core.Register(&core.Spec{
		ID:    "C02",
		Level: "exploration",
		Rule: "inputs: seeded models from internal/gen biased towards everything that passes through a Go map on its way to a sequence (>=2 build.ssh keys, extra_hosts with several addresses, KEY=VALUE sets in both spellings, several IPAM pools, port ranges, " +
			"multi-file layouts with attributes split between main and override file, extends chains, include, profiles, variables, env/label files, x- extensions), the loader's own compose files, deliberately invalid models, and hand-shaped inputs (a dependency rewritten by an override next to short-syntax dependencies; one integer/size/duration-typed attribute out of 16 supplied through a variable whose text has several plausible readings such as 0440, 0x1F, 1_000, 1e2); some carry `version:`. " +
			"Per input: N loads in one process (quick 12, thorough 40) interleaved with the other inputs of the batch in seeded shuffled order + K loads with all mapping keys permuted (quick 3, thorough 10) + 1 load in a fresh process per batch; " +
			"the first successful project is also rendered three times. A case is non-trivial when the input loaded successfully at least twice and was compared; distinct = distinct inputs.",
		Assumptions: []string{
			"only the success/failure class of an outcome is compared, not which error is reported (the statement says `same outcome`); differing error texts are counted (counter error_text_varies)",
			"permuting the keys of YAML mappings (never the items of sequences) does not change the model; YAML gives mapping key order no meaning",
			"a difference already reported for one field of an input is not reported again as a byte difference of the renderings of the same pair of results",
			"Go randomises the start of every map range per loop; for maps of at most 8 entries the reachable orders are the rotations of the insertion order, which the key permutations vary; fresh processes add other hash seeds for larger maps",
		},
		Run:     run,
		Replay:  replay,
		Witness: witness,
		Floor: func(tier string, m *core.Merged) []string {
			var r []string
			if m.Counters["compared_ok"] < 1000 {
				r = append(r, fmt.Sprintf("too few compared successful loads: %d", m.Counters["compared_ok"]))
			}
			for _, mode := range []string{"repeat", "permute", "process"} {
				if m.Cover["mode"][mode] == 0 {
					r = append(r, "comparison mode never exercised: "+mode)
				}
			}
			if m.Counters["compared_error"] == 0 {
				r = append(r, "no failing input was compared")
			}
			return r
		},
	})
}

// result is what one load produced.
type result struct {
	Class   string `json:"class"` // ok | error | panic:<site>
	Err     string `json:"err,omitempty"`
	Canon   string `json:"canon,omitempty"`
	YAML    string `json:"yaml,omitempty"`
	JSON    string `json:"json,omitempty"`
	YAMLErr string `json:"yaml_err,omitempty"`
	JSONErr string `json:"json_err,omitempty"`
	proj    *types.Project
}

func render(p *types.Project, format string) (string, string) {
	var b []byte
	var err error
	pi := core.Guard(func() {
		if format == "yaml" {
			b, err = p.MarshalYAML()
		} else {
			b, err = p.MarshalJSON()
		}
	})
	switch {
	case pi != nil:
		return "", "panic: " + pi.Site
	case err != nil:
		return "", "error"
	}
	return string(b), ""
}

func loadOnce(dir string, c *ld.Case, withCanon bool) *result {
	res := ld.Load(dir, c)
	r := &result{}
	switch {
	case res.Panic != nil:
		r.Class = "panic:" + res.Panic.Site
		r.Err = res.Panic.Value
		return r
	case res.Err != nil:
		r.Class = "error"
		r.Err = res.Err.Error()
		return r
	}
	r.Class = "ok"
	r.proj = res.Project
	r.YAML, r.YAMLErr = render(res.Project, "yaml")
	r.JSON, r.JSONErr = render(res.Project, "json")
	if withCanon {
		r.Canon = canon(res.Project)
	}
	return r
}

// discrepancy between two results of the same input.
type discrepancy struct {
	Kind   string // outcome-differs | project-differs | bytes-differ | marshal-outcome-differs
	Field  string
	Format string
	Detail string
}

var reIndex = regexp.MustCompile(`^[0-9]+$`)

// fieldOf turns a raw path (".Services[web0].Build.SSH[0].ID") into a stable
// attribute ("Services.Build.SSH": the innermost sequence on the path, else the
// leaf) and the struct field name to ignore when looking for further differences.
func fieldOf(raw string) (string, string) {
	type comp struct{ name, key string }
	var comps []comp
	depth := 0
	cur := comp{}
	inKey := false
	flush := func() {
		if cur.name != "" || cur.key != "" {
			comps = append(comps, cur)
		}
		cur = comp{}
	}
	for _, r := range raw {
		switch {
		case r == '[':
			depth++
			if depth == 1 {
				inKey = true
				if cur.key != "" { // second index on the same name: [k][0]
					comps = append(comps, cur)
					cur = comp{name: cur.name}
				}
				continue
			}
		case r == ']':
			depth--
			if depth == 0 {
				inKey = false
				continue
			}
		case r == '.' && depth == 0:
			flush()
			continue
		}
		if inKey {
			cur.key += string(r)
		} else {
			cur.name += string(r)
		}
	}
	flush()
	last := len(comps) - 1
	for i := len(comps) - 1; i >= 0; i-- {
		if reIndex.MatchString(comps[i].key) {
			last = i
			break
		}
	}
	var names []string
	for i := 0; i <= last && i < len(comps); i++ {
		if len(names) == 0 || names[len(names)-1] != comps[i].name {
			names = append(names, comps[i].name)
		}
	}
	ignore := ""
	if last >= 0 && last < len(comps) {
		ignore = comps[last].name
	}
	return strings.Join(names, "."), ignore
}

func rawPath(d string) string {
	if i := strings.Index(d, ": "); i >= 0 {
		return d[:i]
	}
	return d
}

var reKeyLine = regexp.MustCompile(`^\s*(- )?"?([A-Za-z_.#-]+)"?:`)

func firstDiffKey(a, b string) string {
	la, lb := strings.Split(a, "\n"), strings.Split(b, "\n")
	for i := 0; i < len(la) && i < len(lb); i++ {
		if la[i] != lb[i] {
			// name the closest enclosing key: walk back to a line with smaller indentation
			indent := len(la[i]) - len(strings.TrimLeft(la[i], " "))
			for j := i; j >= 0; j-- {
				ind := len(la[j]) - len(strings.TrimLeft(la[j], " "))
				if m := reKeyLine.FindStringSubmatch(la[j]); m != nil && (j == i || ind < indent) {
					if strings.HasPrefix(strings.TrimSpace(la[j]), "- ") && j != i {
						continue
					}
					return m[2]
				}
			}
			return "line"
		}
	}
	return "length"
}

// compare lists the discrepancies between the reference result a and another result b of the same input.
func compare(a, b *result) []discrepancy {
	if a.Class != b.Class {
		return []discrepancy{{Kind: "outcome-differs", Field: a.Class + "/" + b.Class,
			Detail: fmt.Sprintf("one load: %s %s; another load of the same input: %s %s", a.Class, a.Err, b.Class, b.Err)}}
	}
	if a.Class != "ok" {
		return nil
	}
	var out []discrepancy
	if a.proj != nil && b.proj != nil {
		o := diff.Options{Exact: true, IgnoreField: map[string]bool{}}
		for i := 0; i < 6; i++ {
			d := diff.Compare(a.proj, b.proj, o)
			if d == "" {
				break
			}
			field, ignore := fieldOf(rawPath(d))
			out = append(out, discrepancy{Kind: "project-differs", Field: field, Detail: d})
			if ignore == "" {
				break
			}
			o.IgnoreField[ignore] = true
		}
	} else if a.Canon != "" && b.Canon != "" && a.Canon != b.Canon {
		ignored := map[string]bool{}
		for i := 0; i < 6; i++ {
			p, detail := firstDifferingPath(a.Canon, b.Canon, func(path string) bool {
				for ig := range ignored {
					if strings.Contains(path, "."+ig+"[") || strings.HasSuffix(path, "."+ig) || strings.Contains(path, "."+ig+".") {
						return true
					}
				}
				return false
			})
			if p == "" {
				break
			}
			field, ignore := fieldOf(p)
			out = append(out, discrepancy{Kind: "project-differs", Field: field, Detail: detail})
			if ignore == "" {
				break
			}
			ignored[ignore] = true
		}
	}
	if len(out) > 0 {
		return out // the renderings of differing projects differ as a consequence
	}
	for _, f := range []struct{ name, x, y, ex, ey string }{{"yaml", a.YAML, b.YAML, a.YAMLErr, b.YAMLErr}, {"json", a.JSON, b.JSON, a.JSONErr, b.JSONErr}} {
		switch {
		case f.ex != f.ey:
			out = append(out, discrepancy{Kind: "marshal-outcome-differs", Format: f.name, Field: f.ex + "/" + f.ey,
				Detail: fmt.Sprintf("rendering to %s: %q for one load, %q for another load of the same input", f.name, f.ex, f.ey)})
		case f.x != f.y:
			out = append(out, discrepancy{Kind: "bytes-differ", Format: f.name, Field: firstDiffKey(f.x, f.y),
				Detail: fmt.Sprintf("%s renderings of equal projects differ", f.name)})
		}
	}
	return out
}

// ---- fresh-process child --------------------------------------------------------

type childJob struct {
	Dir  string   `json:"dir"`
	Case *ld.Case `json:"case"`
}

func childMain(jobFile string) {
	var jobs []childJob
	if err := core.ReadJSON(jobFile, &jobs); err != nil {
		fmt.Fprintln(os.Stderr, err)
		os.Exit(2)
	}
	var out []*result
	for _, j := range jobs {
		out = append(out, loadOnce(j.Dir, j.Case, true))
	}
	b, _ := json.Marshal(out)
	os.Stdout.Write(b) //nolint:errcheck
}

func runChild(work string, jobs []childJob) ([]*result, error) {
	jobFile := filepath.Join(work, "child-jobs.json")
	b, _ := json.Marshal(jobs)
	if err := os.WriteFile(jobFile, b, 0o644); err != nil {
		return nil, err
	}
	exe, err := os.Executable()
	if err != nil {
		return nil, err
	}
	cmd := exec.Command(exe, "c02-child", jobFile)
	// the process environment is not an input of a load: a name that only the child's process
	// environment defines must not show up anywhere
	cmd.Env = append(os.Environ(), "PROCESS_ONLY_VAR=set-in-the-process-environment-of-the-child-only")
	outb, err := cmd.Output()
	if err != nil {
		return nil, fmt.Errorf("child process: %w", err)
	}
	var res []*result
	if err := json.Unmarshal(outb, &res); err != nil {
		return nil, err
	}
	if len(res) != len(jobs) {
		return nil, fmt.Errorf("child returned %d results for %d jobs", len(res), len(jobs))
	}
	return res, nil
}

func digest(s string) string {
	h := sha256.Sum256([]byte(s))
	return hex.EncodeToString(h[:8])
}
