package c02

import (
	"os"
	"strings"
	"testing"

	"verif/harness/internal/core"
	"verif/harness/internal/gen"
)

// TestWorkloadShapes: the input sequence contains the shapes the monitors rely on.
func TestWorkloadShapes(t *testing.T) {
	work := t.TempDir()
	os.Setenv("HOME", work)
	s, err := core.NewShard("C02", "quick", 1, 0, 1, work, work+"/replay", "")
	if err != nil {
		t.Fatal(err)
	}
	varsInBase, shared, multiSSH, n := 0, 0, 0, 400
	for j := 0; j < n; j++ {
		in := drawInput(s, j, nil)
		if b, ok := in.c.Files[gen.BaseDir+"/base.yaml"]; ok && strings.Contains(b, "$") {
			varsInBase++
		}
		if _, ok := in.c.Files["env/shared.env"]; ok {
			shared++
		}
		for _, f := range in.c.Files {
			if strings.Contains(f, "key1") {
				multiSSH++
				break
			}
		}
	}
	t.Logf("of %d inputs: %d with variables in an extends base file, %d with shared env/label files, %d with >=2 ssh keys", n, varsInBase, shared, multiSSH)
	if varsInBase < n/20 || shared < n/10 || multiSSH < n/10 {
		t.Errorf("workload too thin")
	}
}

// TestBaseFileVariables runs the batches whose inputs carry variables in an extends base file
// (used with -modfile against a seeded tree to see whether the history monitors fire).
func TestBaseFileVariables(t *testing.T) {
	if os.Getenv("C02_DEBUG_BATCH") == "" {
		t.Skip("debug helper")
	}
	work := t.TempDir()
	os.Setenv("HOME", work)
	s, err := core.NewShard("C02", "quick", 1, 0, 1, work, work+"/replay", "")
	if err != nil {
		t.Fatal(err)
	}
	done := 0
	for b := 0; b < 50 && done < 3; b++ {
		var batch []*input
		has := false
		for j := b * 8; j < (b+1)*8; j++ {
			in := drawInput(s, j, nil)
			if f, ok := in.c.Files[gen.BaseDir+"/base.yaml"]; ok && strings.Contains(f, "$") {
				has = true
				t.Logf("batch %d input %s opts=%s env=%v\n%s", b, in.id, in.opts.String(), in.c.Env, f)
			}
			batch = append(batch, in)
		}
		if has {
			done++
			for _, in := range runBatch(s, "dbg", batch, 12, 3, s.Rand("sched/dbg")) {
				if in.first != nil {
					t.Logf("  %s (%s): class=%s err=%.80s loads=%d cmps=%d", in.id, in.origin, in.first.Class, in.first.Err, in.okLoads, in.cmps)
					if in.first.proj != nil && in.sibling {
						y := in.first.YAML
						if of := in.of.first; of != nil && of.proj != nil {
							t.Logf("      sibling yaml equals reference yaml: %v; env differs: %v", y == of.YAML, in.c.Env["GEN_VAR_1"] != in.of.c.Env["GEN_VAR_1"])
						}
					}
				}
			}
		}
	}
}
