package c02

import (
	"encoding/json"
	"fmt"
	"math/rand"
	"os"
	"path/filepath"
	"regexp"
	"sort"
	"strings"

	"verif/harness/internal/core"
	"verif/harness/internal/gen"
	"verif/harness/internal/ld"
)

type input struct {
	id      string
	origin  string
	model   *gen.Model
	opts    ld.Opts
	c       *ld.Case
	dir     string
	first   *result
	okLoads int
	cmps    int
	seen    map[string]bool
	errText map[string]bool
	// sibling: another load sharing the directory and the files of input `of` but with
	// another environment or other options — an "other load executed before" for it
	sibling bool
	of      *input
}

type replayCase struct {
	Mode    string   `json:"mode"`
	Case    *ld.Case `json:"case"`
	Variant *ld.Case `json:"variant,omitempty"`
	Reps    int      `json:"reps,omitempty"`
	// Expect (witness only)
	Kind  string `json:"kind,omitempty"`
	Field string `json:"field,omitempty"` // regular expression
}

func mapToSequenceBias() map[string]bool {
	return map[string]bool{
		"service.build": true, "build.ssh": true, "build.args": true, "build.labels": true, "build.extra_hosts": true, "build.additional_contexts": true,
		"service.extra_hosts": true, "service.environment": true, "service.labels": true, "service.ports": true, "service.depends_on": true,
		"service.env_file": true, "service.label_file": true, "service.networks": true, "service.sysctls": true, "service.ulimits": true,
		"network.ipam": true, "network.ipam.config": true, "network.labels": true, "network.driver_opts": true, "project.extensions": true,
		"service.annotations": true, "service.volumes": true, "service.secrets": true, "service.configs": true, "service.logging": true, "logging.options": true,
	}
}

// drawInput builds input number j of the deterministic sequence.
func drawInput(s *core.Shard, j int, corpus []*ld.Case) *input {
	r := s.Rand(fmt.Sprintf("input/%d", j))
	in := &input{id: fmt.Sprintf("in/%d", j), seen: map[string]bool{}, errText: map[string]bool{}}
	if j%12 == 0 && len(corpus) > 0 {
		c := *corpus[(j/12)%len(corpus)]
		c.Opts = ld.Opts{}
		if r.Intn(2) == 0 {
			c.Opts.SkipConsistencyCheck = true
		}
		in.c = &c
		in.origin = "corpus"
		return in
	}
	if j%12 == 2 || j%12 == 3 {
		// hand-shaped pair sharing a batch: an input whose override rewrites a short-syntax dependency
		// in long form with non-default values, and one that only uses the short syntax. What the
		// first load does to a dependency must not be visible in any other load of the process.
		v := fmt.Sprint(j)
		c := &ld.Case{Files: map[string]string{}, ComposeFiles: []string{"compose.yaml"}}
		if j%12 == 2 {
			c.Files["compose.yaml"] = "services:\n  app" + v + ":\n    image: img\n    depends_on: [db, cache]\n    links: [db]\n  db: {image: img}\n  cache: {image: img}\n"
			c.Files["override.yaml"] = "services:\n  app" + v + ":\n    depends_on:\n      db: {condition: service_healthy, restart: true, required: false}\n"
			c.ComposeFiles = []string{"compose.yaml", "override.yaml"}
			in.origin = "hand-shaped/dependency-rewritten-by-override"
		} else {
			c.Files["compose.yaml"] = "services:\n  web" + v + ":\n    image: img\n    depends_on: [api, store]\n    networks: [front, back]\n  api:\n    image: img\n    depends_on:\n      - store\n  store: {image: img}\nnetworks:\n  front: {}\n  back: {}\n"
			in.origin = "hand-shaped/short-syntax-only"
		}
		in.c = c
		return in
	}
	if j%12 == 4 {
		// hand-shaped: one integer-typed attribute supplied through a variable whose text has more
		// than one plausible reading (leading zero, base prefix, sign, exponent, blanks). Whatever
		// the loader makes of it - a value or an error - every load must make the same of it.
		paths := []struct{ name, body string }{
			{"service-secret-mode", "    secrets:\n      - source: sec\n        target: /t\n        mode: ${M}\n"},
			{"service-config-mode", "    configs:\n      - source: cfg\n        target: /t\n        mode: ${M}\n"},
			{"tmpfs-mode", "    volumes:\n      - type: tmpfs\n        target: /t\n        tmpfs: {mode: ${M}}\n"},
			{"port-target", "    ports:\n      - target: ${M}\n        published: \"8080\"\n"},
			{"healthcheck-retries", "    healthcheck: {test: [CMD, \"true\"], retries: ${M}}\n"},
			{"ulimit-single", "    ulimits: {nofile: ${M}}\n"},
			{"ulimit-soft", "    ulimits: {nofile: {soft: ${M}, hard: 70000}}\n"},
			{"build-ulimit-single", "    build: {context: ., ulimits: {nofile: ${M}}}\n"},
			{"deploy-replicas", "    deploy: {replicas: ${M}}\n"},
			{"oom-score-adj", "    oom_score_adj: ${M}\n"},
			{"pids-limit", "    pids_limit: ${M}\n"},
			{"mem-swappiness", "    mem_swappiness: ${M}\n"},
			{"blkio-weight", "    blkio_config: {weight: ${M}}\n"},
			{"stop-grace-period", "    stop_grace_period: ${M}\n"},
			{"mem-limit", "    mem_limit: ${M}\n"},
			{"cpus", "    cpus: ${M}\n"},
		}
		texts := []string{"0440", "0644", "010", "0x1F", "0o17", "0b11", "1_000", "+5", "-0", "1e2", "07", "00", "440 ", "0440k", "08"}
		k := j / 12
		pa, tx := paths[k%len(paths)], texts[(k/len(paths))%len(texts)]
		c := &ld.Case{Files: map[string]string{}, ComposeFiles: []string{"compose.yaml"}, Env: map[string]string{"M": tx}}
		c.Files["compose.yaml"] = "services:\n  app:\n    image: img\n" + pa.body + "secrets:\n  sec: {environment: SRC}\nconfigs:\n  cfg: {content: x}\n"
		in.origin = "hand-shaped/ambiguous-number-through-variable"
		s.Cover("ambiguous-number-path", pa.name)
		in.c = c
		return in
	}
	cfg := gen.Config{
		Density:     []float64{0.15, 0.3, 0.5}[r.Intn(3)],
		Profiles:    r.Intn(3) == 0,
		TrickyText:  r.Intn(3) == 0,
		Variables:   r.Intn(2) == 0,
		Layout:      r.Intn(10) < 7,
		MultiSSH:    true,
		SharedFiles: r.Intn(2) == 0,
		Force:       map[string]bool{},
	}
	bias := mapToSequenceBias()
	biasKeys := make([]string, 0, len(bias))
	for k := range bias {
		biasKeys = append(biasKeys, k)
	}
	sort.Strings(biasKeys) // the draw must not depend on map order
	for _, k := range biasKeys {
		if r.Intn(2) == 0 {
			cfg.Force[k] = true
		}
	}
	if cfg.Density >= 0.5 {
		cfg.MaxServices = 3
	}
	m := gen.Draw(r, cfg)
	in.origin = "generated"
	if l := m.Layout; l != nil && r.Intn(2) == 0 {
		// bases in another file (their content depends on the environment of the load when they
		// carry variables); a service of an included project addresses its base relative to the
		// included file, so those keep their same-file bases
		included := map[string]bool{}
		if l.Include != nil {
			for _, n := range l.Include.Services {
				included[n] = true
			}
		}
		for n, e := range l.Extends {
			if !included[n] {
				e.File, e.Short = "./"+gen.BaseDir+"/base.yaml", false
			}
		}
	}
	if r.Intn(4) == 0 {
		m.Doc["version"] = "3.9"
		in.origin = "generated+version"
	}
	if j%12 == 1 {
		// deliberately invalid: a reference to a service that does not exist (two of them, so
		// that which one is reported may vary while the outcome may not)
		names := make([]string, 0)
		for n := range m.Doc["services"].(gen.M) {
			names = append(names, n)
		}
		sort.Strings(names)
		for i, n := range names {
			if i < 2 {
				m.Doc["services"].(gen.M)[n].(gen.M)["links"] = gen.L{fmt.Sprintf("ghost%d", i)}
			}
		}
		in.origin = "invalid"
	}
	switch r.Intn(8) {
	case 0:
		in.opts.SkipNormalization = true
	case 1:
		in.opts.NoResolvePaths = true
	case 2:
		in.opts.SkipConsistencyCheck = true
	}
	in.model = m
	in.c = m.Case(in.opts)
	return in
}

func run(s *core.Shard) {
	scale := 1
	if os.Getenv("VERIF_DEBUG") == "small" {
		scale = 10
	}
	nInputs := s.Pick(400, 3000) / scale
	reps := s.Pick(12, 40)
	perms := s.Pick(3, 10)
	const batchSize = 8
	corpus := gen.Corpus()
	runReuse(s, nInputs/batchSize+1)
	for b := 0; b*batchSize < nInputs; b++ {
		if !s.Mine(b) {
			continue
		}
		id := fmt.Sprintf("batch/%d", b)
		if !s.Begin(id) {
			continue
		}
		var batch []*input
		for j := b * batchSize; j < (b+1)*batchSize && j < nInputs; j++ {
			batch = append(batch, drawInput(s, j, corpus))
		}
		runBatch(s, id, batch, reps, perms, s.Rand("sched/"+id))
	}
}

func materialise(root string, k int, in *input) error {
	in.dir = filepath.Join(root, fmt.Sprint(k))
	if err := os.MkdirAll(in.dir, 0o755); err != nil {
		return err
	}
	return ld.Materialise(in.dir, in.c)
}

func runBatch(s *core.Shard, id string, batch []*input, reps, perms int, r *rand.Rand) []*input {
	root := s.Scratch()
	for k, in := range batch {
		if err := materialise(root, k, in); err != nil {
			s.Inconclusive("harness: " + err.Error())
			return batch
		}
		s.Cover("origin", in.origin)
		s.Cover("options", in.opts.String())
		if in.model != nil && in.model.Layout != nil {
			l := in.model.Layout
			if len(l.Extends) > 0 {
				s.Cover("layout", "extends")
			}
			if l.Include != nil {
				s.Cover("layout", "include")
			}
			if len(l.Override) > 0 || len(l.OverrideTop) > 0 {
				s.Cover("layout", "override")
			}
			if len(l.Split) > 0 {
				s.Cover("layout", "split-attribute")
			}
		}
	}
	// ---- siblings: the same files loaded with another environment / other options ----
	for _, in := range append([]*input(nil), batch...) {
		if in.model == nil {
			continue
		}
		for v := 0; v < 2; v++ {
			sc := *in.c
			sc.Env = map[string]string{}
			for k2, v2 := range in.c.Env {
				sc.Env[k2] = v2
			}
			switch v {
			case 0: // every variable gets another value
				for k2, v2 := range in.c.Env {
					sc.Env[k2] = v2 + "-alt"
				}
				for _, name := range in.model.Vars {
					if _, set := sc.Env[name]; !set {
						sc.Env[name] = "alt-" + name
					}
				}
				sc.Env["TIER_UNSET"] = "alt-tier"
			case 1: // other options on the same files
				switch r.Intn(3) {
				case 0:
					sc.Opts.SkipInterpolation = true
				case 1:
					sc.Opts.SkipNormalization = !sc.Opts.SkipNormalization
				default:
					sc.Opts.SkipResolveEnvironment = true
				}
			}
			batch = append(batch, &input{id: fmt.Sprintf("%s/sibling%d", in.id, v), origin: "sibling", c: &sc, dir: in.dir, opts: sc.Opts,
				seen: map[string]bool{}, errText: map[string]bool{}, sibling: true, of: in})
		}
	}
	// ---- repeated loads, interleaved in shuffled order ----
	var sched []int
	for k, in := range batch {
		n := reps
		if in.sibling {
			n = (reps + 3) / 4
		}
		for i := 0; i < n; i++ {
			sched = append(sched, k)
		}
	}
	r.Shuffle(len(sched), func(i, j int) { sched[i], sched[j] = sched[j], sched[i] })
	for _, k := range sched {
		in := batch[k]
		res := loadOnce(in.dir, in.c, false)
		s.Eval(1)
		observe(s, in, res, "repeat", nil)
		if in.first == res && res.Class == "ok" {
			// rendering the very same project again must give the same bytes
			for i := 0; i < 2; i++ {
				for _, f := range []string{"yaml", "json"} {
					b, e := render(res.proj, f)
					ref, refErr := res.YAML, res.YAMLErr
					if f == "json" {
						ref, refErr = res.JSON, res.JSONErr
					}
					if b != ref || e != refErr {
						report(s, in, discrepancy{Kind: "marshal-unstable", Format: f, Field: firstDiffKey(ref, b),
							Detail: "rendering the same project value twice to " + f + " gives different results"}, "same-object", nil)
					}
				}
			}
			s.Cover("mode", "same-object")
		}
	}
	// ---- permuted declaration order ----
	for _, in := range batch {
		if in.model == nil || in.first == nil {
			continue
		}
		for p := 1; p <= perms; p++ {
			v := in.model.Clone()
			v.Order = int64(p)*7919 + 13
			vc := v.Case(in.opts)
			for name, content := range vc.Files {
				if in.c.Files[name] != content {
					_ = os.WriteFile(filepath.Join(in.dir, name), []byte(content), 0o644)
				}
			}
			res := loadOnce(in.dir, vc, false)
			s.Eval(1)
			observe(s, in, res, "permute", vc)
		}
		for name, content := range in.c.Files { // restore the original spelling
			_ = os.WriteFile(filepath.Join(in.dir, name), []byte(content), 0o644)
		}
	}
	// ---- one load each in a fresh process ----
	// An input and its siblings share their files; each goes to another process, so that no
	// process has loaded the same files with another environment or other options before.
	groups := map[int][]int{}
	for k, in := range batch {
		g := 0
		if in.sibling {
			g = 1
			if strings.HasSuffix(in.id, "sibling1") {
				g = 2
			}
		}
		groups[g] = append(groups[g], k)
	}
	for g := 0; g < 3; g++ {
		idx := groups[g]
		if len(idx) == 0 {
			continue
		}
		var jobs []childJob
		for _, k := range idx {
			jobs = append(jobs, childJob{Dir: batch[k].dir, Case: batch[k].c})
		}
		results, err := runChild(root, jobs)
		if err != nil {
			s.Inconclusive("fresh-process comparison failed: " + err.Error())
			continue
		}
		for i, res := range results {
			in := batch[idx[i]]
			if in.first != nil && in.first.Class == "ok" && in.first.Canon == "" {
				in.first.Canon = canon(in.first.proj)
			}
			s.Eval(1)
			observe(s, in, res, "process", nil)
		}
	}
	for _, in := range batch {
		if in.okLoads >= 2 {
			s.Nontrivial(in.c.Key())
		}
		if in.sibling {
			s.Cover("origin", "sibling")
		}
		if len(in.errText) > 1 {
			s.Add("error_text_varies", 1)
		}
		if s.WantSample() && in.first != nil && in.first.Class == "ok" {
			mf := in.c.Files[in.c.ComposeFiles[0]]
			if len(mf) > 1500 {
				mf = mf[:1500] + "\n# ... (truncated in the sample)"
			}
			s.Sample(map[string]any{"input": in.id, "compose_files": in.c.ComposeFiles, "main_file": mf,
				"loads_compared": in.cmps, "yaml_digest": digest(in.first.YAML), "json_digest": digest(in.first.JSON), "verdict": "all loads agreed"})
		}
	}
	return batch
}

// observe records one result of an input and compares it with the input's first result.
func observe(s *core.Shard, in *input, res *result, mode string, variant *ld.Case) {
	s.Cover("mode", mode)
	if res.Class == "ok" {
		in.okLoads++
	}
	if res.Class == "error" {
		in.errText[errShape(res.Err)] = true
	}
	if in.first == nil {
		in.first = res
		return
	}
	in.cmps++
	if res.Class == "ok" {
		s.Add("compared_ok", 1)
	} else {
		s.Add("compared_error", 1)
	}
	for _, d := range compare(in.first, res) {
		report(s, in, d, mode, variantFiles(in, res, variant))
	}
}

func clip(x string, n int) string {
	if len(x) > n {
		return x[:n] + "\n... (clipped)"
	}
	return x
}

var reNum = regexp.MustCompile(`[0-9]+`)

func errShape(e string) string { return reNum.ReplaceAllString(e, "N") }

type variantInfo struct {
	c   *ld.Case
	res *result
}

func variantFiles(in *input, res *result, variant *ld.Case) *variantInfo {
	return &variantInfo{c: variant, res: res}
}

func report(s *core.Shard, in *input, d discrepancy, mode string, v *variantInfo) {
	attrs := map[string]string{"kind": d.Kind, "mode": mode, "field": strings.TrimPrefix(d.Field, "Disabled")}
	if d.Format != "" {
		attrs["format"] = d.Format
	}
	key := core.AttrKey(attrs)
	if in.seen[key] {
		return
	}
	in.seen[key] = true
	rc := replayCase{Mode: mode, Case: in.c, Reps: 60}
	files := map[string]any{}
	if v != nil {
		rc.Variant = v.c
		if v.res != nil && in.first != nil {
			files["first.yaml"] = in.first.YAML
			files["other.yaml"] = v.res.YAML
		}
	}
	files["case.json"] = rc
	what := ""
	switch mode {
	case "repeat":
		what = "two loads of the same input in one process disagree: "
	case "permute":
		what = "loading the same documents with their mapping keys in another order disagrees: "
	case "process":
		what = "a load of the same input in a fresh process disagrees: "
	default:
		what = ""
	}
	s.Violation(attrs, what+d.Detail+" [field "+d.Field+"]", files)
}

// rerun repeats the comparisons of a stored case and returns every discrepancy found.
func rerun(s *core.Shard, rc *replayCase) ([]discrepancy, error) {
	root := s.Scratch()
	in := &input{c: rc.Case, seen: map[string]bool{}, errText: map[string]bool{}}
	if err := materialise(root, 0, in); err != nil {
		return nil, err
	}
	reps := rc.Reps
	if reps <= 0 {
		reps = 60
	}
	var all []discrepancy
	seen := map[string]bool{}
	add := func(ds []discrepancy) {
		for _, d := range ds {
			k := d.Kind + "|" + d.Field + "|" + d.Format
			if !seen[k] {
				seen[k] = true
				all = append(all, d)
			}
		}
	}
	first := loadOnce(in.dir, in.c, true)
	for i := 0; i < reps; i++ {
		add(compare(first, loadOnce(in.dir, in.c, false)))
		s.Eval(1)
	}
	if rc.Variant != nil {
		for name, content := range rc.Variant.Files {
			_ = os.WriteFile(filepath.Join(in.dir, name), []byte(content), 0o644)
		}
		for i := 0; i < 5; i++ {
			add(compare(first, loadOnce(in.dir, rc.Variant, false)))
		}
		for name, content := range in.c.Files {
			_ = os.WriteFile(filepath.Join(in.dir, name), []byte(content), 0o644)
		}
	}
	for i := 0; i < 3; i++ {
		res, err := runChild(root, []childJob{{Dir: in.dir, Case: in.c}})
		if err != nil {
			return all, err
		}
		first.proj = nil // compare by canonical text
		add(compare(first, res[0]))
	}
	return all, nil
}

type reuseWitness struct {
	Kind string `json:"kind"`
	Doc  string `json:"doc"`
	Mode string `json:"mode"`
}

func replay(s *core.Shard, dir string) {
	var rw reuseWitness
	if err := core.ReadJSON(filepath.Join(dir, "case.json"), &rw); err == nil && rw.Kind == "reuse" {
		if differs, detail, files, _ := reuseCase(s, rw.Doc, rw.Mode); differs {
			s.Violation(map[string]string{"kind": "reused-inputs-differ", "mode": rw.Mode}, detail, files)
		}
		return
	}
	var rc replayCase
	if err := core.ReadJSON(filepath.Join(dir, "case.json"), &rc); err != nil || rc.Case == nil {
		s.Inconclusive(fmt.Sprintf("replay: cannot read case.json: %v", err))
		return
	}
	ds, err := rerun(s, &rc)
	if err != nil {
		s.Inconclusive("replay: " + err.Error())
	}
	in := &input{c: rc.Case, seen: map[string]bool{}}
	for _, d := range ds {
		report(s, in, d, rc.Mode, nil)
	}
}

func witness(s *core.Shard, f core.Finding) (bool, string) {
	var rw reuseWitness
	if err := json.Unmarshal(f.Witness, &rw); err == nil && rw.Kind == "reuse" {
		differs, detail, _, _ := reuseCase(s, rw.Doc, rw.Mode)
		return differs, detail
	}
	var rc replayCase
	if err := json.Unmarshal(f.Witness, &rc); err != nil || rc.Case == nil {
		return false, fmt.Sprintf("witness unreadable: %v", err)
	}
	if rc.Reps == 0 {
		rc.Reps = 300
	}
	ds, err := rerun(s, &rc)
	if err != nil {
		return false, err.Error()
	}
	var got []string
	for _, d := range ds {
		got = append(got, d.Kind+":"+d.Field)
		if rc.Kind != "" && d.Kind != rc.Kind {
			continue
		}
		if rc.Field != "" {
			if ok, _ := regexp.MatchString("^(?:"+rc.Field+")$", d.Field); !ok {
				continue
			}
		}
		return true, d.Detail
	}
	return false, fmt.Sprintf("%d repetitions agreed (other discrepancies: %s)", rc.Reps, strings.Join(got, ", "))
}
