// Package c07 checks property C07: variable substitution follows the Compose
// interpolation grammar. A reference evaluator (internal/ref) written from the
// statement runs next to template.Substitute on exhaustively enumerated
// derivations of the grammar and on every string over a small alphabet.
package c07

import (
	"context"
	"errors"
	"fmt"
	"os"
	"path/filepath"
	"sort"
	"strings"

	"github.com/compose-spec/compose-go/v2/interpolation"
	"github.com/compose-spec/compose-go/v2/loader"
	"github.com/compose-spec/compose-go/v2/template"
	"github.com/compose-spec/compose-go/v2/types"
	"github.com/sirupsen/logrus"
	"gopkg.in/yaml.v3"

	"verif/harness/internal/core"
	"verif/harness/internal/ref"
)

func init() {
	logrus.SetLevel(logrus.PanicLevel)
	core.Register(&core.Spec{
		ID:    "C07",
		Level: "exploration",
		Rule: "part 1: every derivation of T ::= (literal | $$ | $NAME | ${NAME} | ${NAME op T})* with at most 4 grammar items in total and nesting <=2 (complete; thorough adds nesting 3 and a seed-selected eighth of the 5-item derivations; 3 names, literals incl. operator characters) x 6 variable environments, each compared with a reference evaluator written from the statement; " +
			"part 2: every string over {$ { } : - + ? A _ 1 space} up to a length bound x 2 environments (no panic; in-grammar strings decided by the reference; malformed ${...} must be an error); " +
			"part 2b: a malformed substitution nested in the operand of every operator form (selected by the state of the outer variable or not), classified by the reference parser; " +
			"part 3: a sample pushed through loader.LoadWithContext as image/label values, and through interpolation.Interpolate as a tree (under mappings and inside sequences) interpolated three times with two different mappings. A case is non-trivial when its template contains at least one substitution and the statement decides its outcome; distinct = distinct template texts.",
		Assumptions: []string{
			"the reference evaluator (internal/ref/interp.go) is a faithful reading of the statement",
			"where the statement is silent (errors inside an unused default/replacement/message, `$` followed by a non-name character, bare `{` inside nested text, the partial value returned along with an error) no outcome is asserted, only absence of a panic",
		},
		Exhaustive: func(tier string) bool { return tier == "quick" },
		CPUBudget:  func(string) float64 { return 300 },
		Run:        run,
		Replay:     replay,
		Floor: func(tier string, m *core.Merged) []string {
			var r []string
			if m.Counters["decided_value"] < 10000 || m.Counters["decided_error"] < 1000 || m.Counters["malformed_checked"] < 100 || m.Counters["loader_checked"] < 50 {
				r = append(r, fmt.Sprintf("too few decided cases: %v", m.Counters))
			}
			for _, op := range []string{":-", "-", ":+", "+", ":?", "?"} {
				if m.Cover["operator"][op] == 0 {
					r = append(r, "operator never exercised: "+op)
				}
			}
			return r
		},
	})
}

type envDef struct {
	Name string
	M    map[string]string
}

var envs = []envDef{
	{"all-set", map[string]string{"A": "va", "B_1": "vb", "u": "vu"}},
	{"all-unset", map[string]string{}},
	{"all-empty", map[string]string{"A": "", "B_1": "", "u": ""}},
	{"dollar-values", map[string]string{"A": "$B_1", "B_1": "${A:-x}"}},
	{"blank-values", map[string]string{"A": " ", "B_1": "\t", "u": "\n"}}, // set and non-empty
	{"mixed-1", map[string]string{"B_1": "", "u": "vu"}},
	{"mixed-2", map[string]string{"A": "", "B_1": "vb"}},
}

func lookup(m map[string]string) func(string) (string, bool) {
	return func(k string) (string, bool) { v, ok := m[k]; return v, ok }
}

// compare runs the real Substitute on tmpl and checks it against the reference outcome.
func compare(s *core.Shard, tmpl string, want ref.Outcome, status ref.ParseStatus, env envDef, origin string) {
	var got string
	var err error
	pi := core.Guard(func() { got, err = template.Substitute(tmpl, lookup(env.M)) })
	s.Eval(1)
	report := func(kind, what string) {
		s.Violation(map[string]string{"kind": kind, "origin": origin},
			fmt.Sprintf("%s: template %q env=%s", what, tmpl, env.Name),
			map[string]any{"case.json": replayCase{Template: tmpl, Env: env.M}})
	}
	if pi != nil {
		s.Violation(map[string]string{"kind": "panic", "site": pi.Site, "class": pi.Class},
			fmt.Sprintf("template.Substitute panicked on %q: %s", tmpl, pi.Value),
			map[string]any{"case.json": replayCase{Template: tmpl, Env: env.M}, "stack.txt": pi.Stack})
		return
	}
	switch status {
	case ref.Unspecified:
		s.Add("unspecified_no_panic_only", 1)
		return
	case ref.Malformed:
		s.Add("malformed_checked", 1)
		if err == nil {
			report("malformed-accepted", fmt.Sprintf("malformed substitution returned value %q without error", got))
		}
		return
	}
	if want.Unspecified {
		s.Add("unspecified_no_panic_only", 1)
		return
	}
	if want.Err {
		s.Add("decided_error", 1)
		if err == nil {
			report("missing-error", fmt.Sprintf("expected an error, got value %q", got))
			return
		}
		if want.ErrVar != "" {
			var mre *template.MissingRequiredError
			msg := err.Error()
			if errors.As(err, &mre) {
				if mre.Variable != want.ErrVar || mre.Reason != want.ErrMsg {
					report("wrong-error", fmt.Sprintf("error carries variable %q message %q, expected %q / %q", mre.Variable, mre.Reason, want.ErrVar, want.ErrMsg))
				}
			} else if !strings.Contains(msg, want.ErrVar) || !strings.Contains(msg, want.ErrMsg) {
				report("wrong-error", fmt.Sprintf("error %q does not carry variable %q and message %q", msg, want.ErrVar, want.ErrMsg))
			}
		}
		return
	}
	s.Add("decided_value", 1)
	if err != nil {
		report("unexpected-error", fmt.Sprintf("expected value %q, got error %v", want.Value, err))
		return
	}
	if got != want.Value {
		report("wrong-value", fmt.Sprintf("expected %q, got %q", want.Value, got))
	}
}

type replayCase struct {
	Template string            `json:"template"`
	Env      map[string]string `json:"env"`
}

func replay(s *core.Shard, dir string) {
	var rc replayCase
	if err := core.ReadJSON(filepath.Join(dir, "case.json"), &rc); err != nil {
		s.Inconclusive("replay: " + err.Error())
		return
	}
	items, st := ref.Parse(rc.Template)
	var want ref.Outcome
	if st == ref.InGrammar {
		want = ref.Eval(items, lookup(rc.Env))
	}
	compare(s, rc.Template, want, st, envDef{"replay", rc.Env}, "replay")
}

var (
	names       = []string{"A", "B_1", "u"}
	topLits     = []string{"x", "a-b", ":-", "?", "+y", " ", "}"}
	nestedLits  = []string{"x", "a-b", ":-", "?", "+y", " "}
	ops         = []string{":-", "-", ":+", "+", ":?", "?"}
	startsNamey = func(s string) bool {
		if s == "" {
			return false
		}
		c := s[0]
		return c == '_' || c >= 'a' && c <= 'z' || c >= 'A' && c <= 'Z' || c >= '0' && c <= '9'
	}
)

// seqs returns every item sequence whose total number of grammar items (at all
// levels together) is exactly n and whose nesting depth is at most depth.
// Results for nested levels are memoised; adjacency rules keep the rendering
// unambiguous (no two adjacent literals, no name character right after $NAME).
type enumerator struct {
	memo map[[3]int][][]ref.Item
}

func (e *enumerator) atoms(nested bool) []ref.Item {
	lits := topLits
	if nested {
		lits = nestedLits
	}
	var atoms []ref.Item
	for _, l := range lits {
		atoms = append(atoms, ref.Item{Kind: ref.Lit, Text: l})
	}
	atoms = append(atoms, ref.Item{Kind: ref.Esc})
	for _, n := range names {
		atoms = append(atoms, ref.Item{Kind: ref.Var, Name: n}, ref.Item{Kind: ref.Var, Name: n, Braced: true})
	}
	return atoms
}

func compatible(last *ref.Item, a ref.Item) bool {
	if last == nil {
		return true
	}
	if last.Kind == ref.Lit && a.Kind == ref.Lit {
		return false
	}
	if last.Kind == ref.Var && !last.Braced && a.Kind == ref.Lit && startsNamey(a.Text) {
		return false
	}
	return true
}

// firstItems lists the possible first items of a sequence together with their cost.
func (e *enumerator) firstItems(n, depth int, nested bool, f func(it ref.Item, cost int)) {
	for _, a := range e.atoms(nested) {
		f(a, 1)
	}
	if depth == 0 {
		return
	}
	for m := 0; m <= n-1; m++ {
		for _, sub := range e.seqs(m, depth-1, true) {
			for _, nm := range names[:2] {
				for _, op := range ops {
					f(ref.Item{Kind: ref.Op, Name: nm, Oper: op, Sub: sub}, 1+m)
				}
			}
		}
	}
}

func (e *enumerator) seqs(n, depth int, nested bool) [][]ref.Item {
	nk := 0
	if nested {
		nk = 1
	}
	key := [3]int{n, depth, nk}
	if r, ok := e.memo[key]; ok {
		return r
	}
	var out [][]ref.Item
	if n == 0 {
		out = [][]ref.Item{nil}
	} else {
		e.firstItems(n, depth, nested, func(it ref.Item, cost int) {
			if cost > n {
				return
			}
			for _, rest := range e.seqs(n-cost, depth, nested) {
				var nxt *ref.Item
				if len(rest) > 0 {
					nxt = &rest[0]
				}
				if nxt != nil && !compatible(&it, *nxt) {
					continue
				}
				seq := make([]ref.Item, 0, 1+len(rest))
				seq = append(seq, it)
				seq = append(seq, rest...)
				out = append(out, seq)
			}
		})
	}
	e.memo[key] = out
	return out
}

// enumerate streams every top-level sequence of total size <= maxSize.
func enumerate(maxSize, depth int, f func([]ref.Item)) {
	e := &enumerator{memo: map[[3]int][][]ref.Item{}}
	f(nil)
	for n := 1; n <= maxSize; n++ {
		e.firstItems(n, depth, false, func(it ref.Item, cost int) {
			if cost > n {
				return
			}
			for _, rest := range e.seqs(n-cost, depth, false) {
				if len(rest) > 0 && !compatible(&it, rest[0]) {
					continue
				}
				seq := make([]ref.Item, 0, 1+len(rest))
				seq = append(seq, it)
				seq = append(seq, rest...)
				f(seq)
			}
		})
	}
}

// size is the total number of grammar items of a template, nested ones included.
func size(t []ref.Item) int {
	n := 0
	for _, it := range t {
		n++
		if it.Kind == ref.Op {
			n += size(it.Sub)
		}
	}
	return n
}

func hasSubst(t []ref.Item) bool {
	for _, it := range t {
		if it.Kind != ref.Lit {
			return true
		}
	}
	return false
}

func coverOps(s *core.Shard, t []ref.Item, depth int) {
	for _, it := range t {
		if it.Kind == ref.Op {
			s.Cover("operator", it.Oper)
			s.Cover("nesting", fmt.Sprint(depth+1))
			coverOps(s, it.Sub, depth+1)
		}
	}
}

func run(s *core.Shard) {
	// ---- part 1: exhaustive derivations -------------------------------------
	// quick: <=3 items at top, <=2 nested, depth 1 plus <=2/1/1 at depth 2;
	// thorough: deeper/wider. Counts are measured and reported.
	// total number of grammar items over all levels <= size, nesting <= depth
	shapes := [][2]int{{4, 2}}
	if s.Thorough() {
		shapes = [][2]int{{5, 3}}
	}
	n, mine := 0, 0
	for si, shape := range shapes {
		enumerate(shape[0], shape[1], func(t []ref.Item) {
			n++
			if !s.Mine(n) {
				return
			}
			if size(t) == 5 && (n/s.Count)%8 != int(s.Seed)%8 {
				return // thorough: size 5 is a seed-selected eighth (size <= 4 stays complete)
			}
			mine++
			if mine%2000 == 1 {
				s.Begin(fmt.Sprintf("derivations/%d/%d", si, n))
			}
			tmpl := ref.Render(t)
			if hasSubst(t) {
				s.Nontrivial(tmpl)
				coverOps(s, t, 0)
			}
			for _, e := range envs {
				want := ref.Eval(t, lookup(e.M))
				compare(s, tmpl, want, ref.InGrammar, e, "derivation")
			}
			if s.WantSample() && len(t) >= 2 && t[len(t)-1].Kind == ref.Op {
				o := ref.Eval(t, lookup(envs[0].M))
				s.Sample(map[string]any{"template": tmpl, "env": envs[0].M, "expected_value": o.Value, "expected_error": o.Err})
			}
			// part 3: a sample also goes through the loader
			if n%97 == 0 {
				loaderCase(s, tmpl, t, envs[n/97%len(envs)])
				treeCase(s, tmpl, t, n/97)
			}
		})
	}
	s.Add("derivations_enumerated_by_this_shard_walk", n)

	// ---- part 2: all strings over the alphabet -----------------------------
	alphabet := []byte("${}:-+?A_1 ")
	maxLen := s.Pick(5, 6)
	strEnvs := []envDef{
		{"A-set", map[string]string{"A": "va", "_": ""}},
		{"A-unset", map[string]string{"_": "u", "A1": "v1", "AA": ""}},
	}
	buf := make([]byte, 0, maxLen)
	k := 0
	var gen func()
	gen = func() {
		k++
		if s.Mine(k) {
			mine++
			if mine%5000 == 1 {
				s.Begin(fmt.Sprintf("strings/%d", k))
			}
			str := string(buf)
			items, st := ref.Parse(str)
			s.Cover("string-class", [...]string{"in-grammar", "malformed", "unspecified"}[st])
			if st == ref.InGrammar && hasSubst(items) {
				s.Nontrivial(str)
			}
			for _, e := range strEnvs {
				var want ref.Outcome
				if st == ref.InGrammar {
					want = ref.Eval(items, lookup(e.M))
				}
				compare(s, str, want, st, e, "string")
			}
		}
		if len(buf) == maxLen {
			return
		}
		for _, c := range alphabet {
			buf = append(buf, c)
			gen()
			buf = buf[:len(buf)-1]
		}
	}
	gen()

	// ---- part 2b: a malformed substitution nested in an operand, used or not ------
	// (longer than the strings of part 2: built, then classified by the reference parser; a
	// malformed `${` is an error wherever it stands, also inside a default, replacement or message
	// that the state of the outer variable does not select)
	frags := []string{"${}", "${ }", "${x!}", "${1A}", "${A", "${", "${A:}", "${A:-", "${-d}", "${A B}", "${A$}"}
	pres := []string{"", "t", "${A}", "$$"}
	posts := []string{"", "z", "$B_1"}
	ops := []string{":-", "-", ":+", "+", ":?", "?"}
	vars := []string{"A", "B_1", "u"}
	k = 0
	for _, v := range vars {
		for _, op := range ops {
			for _, f := range frags {
				for _, pre := range pres {
					for _, post := range posts {
						for depth := 1; depth <= 2; depth++ {
							k++
							if !s.Mine(k) {
								continue
							}
							if k%500 == 1 {
								s.Begin(fmt.Sprintf("nested-malformed/%d", k))
							}
							operand := pre + f + post
							if depth == 2 {
								operand = "x${" + vars[(k/7)%3] + ops[(k/3)%6] + operand + "}"
							}
							str := "a ${" + v + op + operand + "} b"
							items, st := ref.Parse(str)
							s.Cover("nested-malformed-class", [...]string{"in-grammar", "malformed", "unspecified"}[st])
							for _, e := range envs {
								var want ref.Outcome
								if st == ref.InGrammar {
									want = ref.Eval(items, lookup(e.M))
								}
								if st == ref.Malformed {
									val, set := e.M[v]
									used := map[string]bool{":-": !set || val == "", "-": !set, ":+": set && val != "", "+": set, ":?": !set || val == "", "?": !set}[op]
									s.Cover("nested-malformed-operand", map[bool]string{true: "selected", false: "not selected"}[used]+" "+op)
								}
								compare(s, str, want, st, e, "nested-malformed")
							}
						}
					}
				}
			}
		}
	}
}

// treeCase interpolates one parsed tree (the template under mappings and inside sequences) once per
// variable mapping, the way one parsed model is interpolated for several environments: every call
// must give the value of its own mapping at every position.
func treeCase(s *core.Shard, tmpl string, t []ref.Item, k int) {
	tree := map[string]any{
		"m": map[string]any{"k": tmpl, "n": map[string]any{"k": tmpl}},
		"l": []any{tmpl, map[string]any{"k": tmpl}, []any{tmpl, "lit"}, tmpl},
	}
	var leaves func(v any, path string, f func(path, sv string))
	leaves = func(v any, path string, f func(path, sv string)) {
		switch x := v.(type) {
		case string:
			f(path, x)
		case map[string]any:
			keys := make([]string, 0, len(x))
			for key := range x {
				keys = append(keys, key)
			}
			sort.Strings(keys)
			for _, key := range keys {
				leaves(x[key], path+"."+key, f)
			}
		case []any:
			for i, e := range x {
				leaves(e, fmt.Sprintf("%s[%d]", path, i), f)
			}
		}
	}
	for call := 0; call < 3; call++ {
		e := envs[(k+call*5)%len(envs)] // call 0 and 2 differ from call 1
		want := ref.Eval(t, lookup(e.M))
		if want.Unspecified {
			continue
		}
		var got map[string]any
		var err error
		pi := core.Guard(func() { got, err = interpolation.Interpolate(tree, interpolation.Options{LookupValue: lookup(e.M)}) })
		s.Eval(1)
		s.Add("tree_calls", 1)
		files := map[string]any{"case.json": replayCase{Template: tmpl, Env: e.M}}
		if pi != nil {
			s.Violation(map[string]string{"kind": "panic", "site": pi.Site, "class": pi.Class}, "interpolation.Interpolate panicked on a tree holding "+tmpl+": "+pi.Value, files)
			return
		}
		if want.Err {
			if err == nil {
				s.Violation(map[string]string{"kind": "missing-error", "origin": "tree"}, fmt.Sprintf("tree holding %q (env %s, call %d on the same tree) interpolated although the substitution must fail", tmpl, e.Name, call+1), files)
			}
			continue
		}
		if err != nil {
			s.Violation(map[string]string{"kind": "unexpected-error", "origin": "tree"}, fmt.Sprintf("tree holding %q (env %s, call %d on the same tree) failed: %v", tmpl, e.Name, call+1, err), files)
			return
		}
		bad := ""
		leaves(got, "", func(path, sv string) {
			if bad == "" && sv != want.Value && !(strings.HasSuffix(path, "[1]") && sv == "lit") {
				bad = fmt.Sprintf("%s = %q", path, sv)
			}
		})
		if bad != "" {
			s.Violation(map[string]string{"kind": "wrong-value", "origin": "tree"}, fmt.Sprintf("tree holding %q (env %s, call %d on the same tree): %s, expected %q", tmpl, e.Name, call+1, bad, want.Value), files)
			return
		}
	}
}

// loaderCase checks that a project loaded from a document using the template
// carries the reference value (or fails when the reference says error).
func loaderCase(s *core.Shard, tmpl string, t []ref.Item, e envDef) {
	want := ref.Eval(t, lookup(e.M))
	if want.Unspecified {
		return
	}
	doc := map[string]any{"services": map[string]any{"s": map[string]any{
		"image":   "img",
		"labels":  map[string]any{"l": tmpl},
		"command": []any{tmpl},
	}}}
	b, err := yaml.Marshal(doc)
	if err != nil {
		return
	}
	env := types.Mapping{}
	for k, v := range e.M {
		env[k] = v
	}
	var p *types.Project
	var lerr error
	pi := core.Guard(func() {
		p, lerr = loader.LoadWithContext(context.Background(), types.ConfigDetails{
			WorkingDir:  s.Work,
			ConfigFiles: []types.ConfigFile{{Filename: filepath.Join(s.Work, "compose.yaml"), Content: b}},
			Environment: env,
		}, func(o *loader.Options) { o.SetProjectName("c07", true) })
	})
	s.Eval(1)
	s.Add("loader_checked", 1)
	files := map[string]any{"compose.yaml": b, "case.json": replayCase{Template: tmpl, Env: e.M}}
	if pi != nil {
		s.Violation(map[string]string{"kind": "panic", "site": pi.Site, "class": pi.Class}, "loader panicked on template "+tmpl+": "+pi.Value, files)
		return
	}
	if want.Err {
		if lerr == nil {
			s.Violation(map[string]string{"kind": "missing-error", "origin": "loader"}, fmt.Sprintf("document using %q (env %s) loaded although the substitution must fail", tmpl, e.Name), files)
		}
		return
	}
	if lerr != nil {
		s.Violation(map[string]string{"kind": "unexpected-error", "origin": "loader"}, fmt.Sprintf("document using %q (env %s) failed to load: %v", tmpl, e.Name, lerr), files)
		return
	}
	svc := p.Services["s"]
	if svc.Labels["l"] != want.Value || len(svc.Command) != 1 || svc.Command[0] != want.Value {
		s.Violation(map[string]string{"kind": "wrong-value", "origin": "loader"}, fmt.Sprintf("document using %q (env %s): label=%q command=%q, expected %q", tmpl, e.Name, svc.Labels["l"], svc.Command, want.Value), files)
	}
}

var _ = os.Getenv
