// Package ld materialises generated cases as real directory trees and loads
// them with the real loader, converting panics into PanicInfo.
package ld

import (
	"context"
	"fmt"
	"os"
	"path/filepath"
	"sort"
	"strings"

	"github.com/compose-spec/compose-go/v2/loader"
	"github.com/compose-spec/compose-go/v2/types"
	"github.com/sirupsen/logrus"

	"verif/harness/internal/core"
)

func init() { logrus.SetLevel(logrus.PanicLevel) }

// Opts mirrors the public loader options (JSON-serialisable for replay).
type Opts struct {
	SkipValidation         bool     `json:"skip_validation,omitempty"`
	SkipInterpolation      bool     `json:"skip_interpolation,omitempty"`
	SkipNormalization      bool     `json:"skip_normalization,omitempty"`
	NoResolvePaths         bool     `json:"no_resolve_paths,omitempty"`
	SkipConsistencyCheck   bool     `json:"skip_consistency_check,omitempty"`
	SkipExtends            bool     `json:"skip_extends,omitempty"`
	SkipInclude            bool     `json:"skip_include,omitempty"`
	SkipResolveEnvironment bool     `json:"skip_resolve_environment,omitempty"`
	SkipDefaultValues      bool     `json:"skip_default_values,omitempty"`
	DiscardEnvFiles        bool     `json:"discard_env_files,omitempty"`
	ConvertWindowsPaths    bool     `json:"convert_windows_paths,omitempty"`
	Profiles               []string `json:"profiles,omitempty"`
	// RemoteLoader registers a remote ResourceLoader that accepts nothing (its presence alone
	// switches the loader to the code paths used when remote loaders are configured).
	RemoteLoader bool `json:"remote_loader,omitempty"`
	// NilInterpolate clears Options.Interpolate (the loader's file reader tolerates a nil value)
	NilInterpolate bool `json:"nil_interpolate,omitempty"`
	// Name "" => project name "verif" set imperatively; "-" => not set at all.
	Name string `json:"name,omitempty"`
}

// String names the option set compactly (for coverage tables).
func (o Opts) String() string {
	var p []string
	add := func(b bool, n string) {
		if b {
			p = append(p, n)
		}
	}
	add(o.SkipValidation, "SkipValidation")
	add(o.SkipInterpolation, "SkipInterpolation")
	add(o.SkipNormalization, "SkipNormalization")
	add(o.NoResolvePaths, "NoResolvePaths")
	add(o.SkipConsistencyCheck, "SkipConsistencyCheck")
	add(o.SkipExtends, "SkipExtends")
	add(o.SkipInclude, "SkipInclude")
	add(o.SkipResolveEnvironment, "SkipResolveEnvironment")
	add(o.SkipDefaultValues, "SkipDefaultValues")
	add(o.DiscardEnvFiles, "DiscardEnvFiles")
	add(o.RemoteLoader, "RemoteLoader")
	add(o.NilInterpolate, "NilInterpolate")
	if len(p) == 0 {
		return "default"
	}
	return strings.Join(p, "+")
}

// Case is a self-contained load: files on disk, compose files in order, environment, options.
type Case struct {
	Files        map[string]string `json:"files"`          // relative path -> content
	Dirs         []string          `json:"dirs,omitempty"` // empty directories to create
	ComposeFiles []string          `json:"compose_files"`
	Env          map[string]string `json:"env,omitempty"`
	WorkingDir   string            `json:"working_dir,omitempty"` // relative to the case directory
	Opts         Opts              `json:"opts"`
	// Labels: the compose files are handed to the loader with their content and with the relative
	// text of ComposeFiles as Filename (a caller-side label), instead of an absolute path to read
	Labels bool `json:"labels,omitempty"`
}

// Key returns a stable textual form of the case (for distinct counting).
func (c *Case) Key() string {
	var sb strings.Builder
	names := make([]string, 0, len(c.Files))
	for n := range c.Files {
		names = append(names, n)
	}
	sort.Strings(names)
	for _, n := range names {
		sb.WriteString(n + "\x00" + c.Files[n] + "\x00")
	}
	sb.WriteString(strings.Join(c.ComposeFiles, ","))
	envk := make([]string, 0, len(c.Env))
	for k, v := range c.Env {
		envk = append(envk, k+"="+v)
	}
	sort.Strings(envk)
	sb.WriteString(strings.Join(envk, "\x00"))
	sb.WriteString(c.Opts.String() + strings.Join(c.Opts.Profiles, ","))
	return sb.String()
}

// Materialise writes the case's files under dir.
func Materialise(dir string, c *Case) error {
	for _, d := range c.Dirs {
		if err := os.MkdirAll(filepath.Join(dir, d), 0o755); err != nil {
			return err
		}
	}
	for name, content := range c.Files {
		p := filepath.Join(dir, name)
		if err := os.MkdirAll(filepath.Dir(p), 0o755); err != nil {
			return err
		}
		if err := os.WriteFile(p, []byte(content), 0o644); err != nil {
			return err
		}
	}
	return nil
}

// OptionFuncs converts Opts into loader option functions.
func (o Opts) OptionFuncs() []func(*loader.Options) {
	return []func(*loader.Options){func(lo *loader.Options) {
		lo.SkipValidation = o.SkipValidation
		lo.SkipInterpolation = o.SkipInterpolation
		lo.SkipNormalization = o.SkipNormalization
		lo.ResolvePaths = !o.NoResolvePaths
		lo.SkipConsistencyCheck = o.SkipConsistencyCheck
		lo.SkipExtends = o.SkipExtends
		lo.SkipInclude = o.SkipInclude
		lo.SkipResolveEnvironment = o.SkipResolveEnvironment
		lo.SkipDefaultValues = o.SkipDefaultValues
		lo.ConvertWindowsPaths = o.ConvertWindowsPaths
		lo.Profiles = o.Profiles
		if o.RemoteLoader {
			lo.ResourceLoaders = append(lo.ResourceLoaders, idleRemoteLoader{})
		}
		if o.DiscardEnvFiles {
			loader.WithDiscardEnvFiles(lo)
		}
		if o.NilInterpolate {
			lo.Interpolate = nil
		}
		switch o.Name {
		case "":
			lo.SetProjectName("verif", true)
		case "-":
		default:
			lo.SetProjectName(o.Name, true)
		}
	}}
}

// Details builds the ConfigDetails for a materialised case (files read from disk by the loader).
func Details(dir string, c *Case) types.ConfigDetails {
	wd := filepath.Join(dir, c.WorkingDir)
	var cfs []types.ConfigFile
	for _, f := range c.ComposeFiles {
		p := f
		if !filepath.IsAbs(p) {
			p = filepath.Join(dir, f)
		}
		if c.Labels && !filepath.IsAbs(f) {
			if b, err := os.ReadFile(p); err == nil {
				cfs = append(cfs, types.ConfigFile{Filename: f, Content: b})
				continue
			}
		}
		cfs = append(cfs, types.ConfigFile{Filename: p})
	}
	env := types.Mapping{}
	for k, v := range c.Env {
		env[k] = v
	}
	return types.ConfigDetails{WorkingDir: wd, ConfigFiles: cfs, Environment: env}
}

// Result of one load.
type Result struct {
	Project *types.Project
	Err     error
	Panic   *core.PanicInfo
}

// Load runs loader.LoadWithContext on an already materialised case.
func Load(dir string, c *Case) Result {
	var r Result
	r.Panic = core.Guard(func() {
		r.Project, r.Err = loader.LoadWithContext(context.Background(), Details(dir, c), c.Opts.OptionFuncs()...)
	})
	return r
}

// LoadModel runs loader.LoadModelWithContext.
func LoadModel(dir string, c *Case) (m map[string]any, err error, pi *core.PanicInfo) {
	pi = core.Guard(func() {
		m, err = loader.LoadModelWithContext(context.Background(), Details(dir, c), c.Opts.OptionFuncs()...)
	})
	return
}

// Run materialises c into a fresh sub-directory of work and loads it.
func Run(work string, c *Case) (string, Result) {
	dir := filepath.Join(work, "case")
	_ = os.RemoveAll(dir)
	if err := os.MkdirAll(dir, 0o755); err != nil {
		return dir, Result{Err: fmt.Errorf("harness: %w", err)}
	}
	if err := Materialise(dir, c); err != nil {
		return dir, Result{Err: fmt.Errorf("harness: %w", err)}
	}
	return dir, Load(dir, c)
}

// PanicViolation reports a recovered panic through the shard.
func PanicViolation(s *core.Shard, pi *core.PanicInfo, c *Case, extra map[string]string) {
	attrs := map[string]string{"kind": "panic", "site": pi.Site, "class": pi.Class}
	for k, v := range extra {
		attrs[k] = v
	}
	s.Violation(attrs, fmt.Sprintf("panic in %s (%s): %s", pi.Site, pi.Class, pi.Value), map[string]any{"case.json": c, "stack.txt": pi.Stack})
}

// idleRemoteLoader is a remote resource loader for a scheme no generated input uses.
type idleRemoteLoader struct{}

func (idleRemoteLoader) Accept(p string) bool { return strings.HasPrefix(p, "verif-remote://") }
func (idleRemoteLoader) Load(_ context.Context, p string) (string, error) {
	return "", fmt.Errorf("verif-remote: nothing to load for %s", p)
}
func (idleRemoteLoader) Dir(p string) string { return p }
