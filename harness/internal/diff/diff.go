// Package diff is the normalising comparer for typed projects: a reflection
// walk that reports the first differing path and applies only the
// normalisations the properties license.
package diff

import (
	"fmt"
	"reflect"
	"sort"
	"strings"
)

// Options selects the licensed normalisations.
type Options struct {
	// Exact disables every normalisation (C02).
	Exact bool
	// UnorderedElem: slices whose element type name is listed are compared as multisets.
	UnorderedElem map[string]bool
	// UnorderedField: slices at a field with this name (e.g. "DNS") are compared as multisets.
	UnorderedField map[string]bool
	// IgnoreField: struct fields (by "Type.Field" or just "Field") skipped altogether.
	IgnoreField map[string]bool
}

// Default is what most metamorphic checks use: nil == empty, pointer to zero
// struct == nil pointer, keyed/unique lists compared as sets.
func Default() Options {
	return Options{
		UnorderedElem: map[string]bool{
			"ServicePortConfig": true, "ServiceVolumeConfig": true, "ServiceSecretConfig": true,
			"ServiceConfigObjConfig": true, "DeviceMapping": true, "EnvFile": true, "SSHKey": true,
		},
		UnorderedField: map[string]bool{},
		IgnoreField:    map[string]bool{},
	}
}

// Compare returns "" when a and b are equal under o, else a description of the first difference.
func Compare(a, b any, o Options) string {
	return cmp(reflect.ValueOf(a), reflect.ValueOf(b), "", "", o)
}

func isZeroish(v reflect.Value, o Options) bool {
	if !v.IsValid() {
		return true
	}
	switch v.Kind() {
	case reflect.Map, reflect.Slice:
		return v.Len() == 0
	case reflect.Ptr, reflect.Interface:
		if v.IsNil() {
			return true
		}
		if o.Exact {
			return false
		}
		return isZeroish(v.Elem(), o)
	case reflect.Struct:
		if o.Exact {
			return v.IsZero()
		}
		for i := 0; i < v.NumField(); i++ {
			if !isZeroish(v.Field(i), o) {
				return false
			}
		}
		return true
	}
	return v.IsZero()
}

func show(v reflect.Value) string {
	if !v.IsValid() {
		return "<invalid>"
	}
	for v.Kind() == reflect.Ptr || v.Kind() == reflect.Interface {
		if v.IsNil() {
			return "<nil>"
		}
		v = v.Elem()
	}
	var s string
	if v.CanInterface() {
		s = fmt.Sprintf("%#v", v.Interface())
	} else {
		s = fmt.Sprintf("%v", v)
	}
	if len(s) > 300 {
		s = s[:300] + "..."
	}
	return s
}

func cmp(a, b reflect.Value, path, field string, o Options) string {
	if !a.IsValid() || !b.IsValid() {
		if a.IsValid() == b.IsValid() {
			return ""
		}
		if !o.Exact && isZeroish(a, o) && isZeroish(b, o) {
			return ""
		}
		return fmt.Sprintf("%s: %s != %s", path, show(a), show(b))
	}
	if a.Type() != b.Type() {
		// interfaces holding different dynamic types
		return fmt.Sprintf("%s: type %s != %s (%s vs %s)", path, a.Type(), b.Type(), show(a), show(b))
	}
	switch a.Kind() {
	case reflect.Ptr, reflect.Interface:
		if a.IsNil() || b.IsNil() {
			if a.IsNil() && b.IsNil() {
				return ""
			}
			if !o.Exact && isZeroish(a, o) && isZeroish(b, o) {
				return ""
			}
			return fmt.Sprintf("%s: %s != %s", path, show(a), show(b))
		}
		return cmp(a.Elem(), b.Elem(), path, field, o)
	case reflect.Struct:
		t := a.Type()
		for i := 0; i < a.NumField(); i++ {
			f := t.Field(i)
			if o.IgnoreField[f.Name] || o.IgnoreField[t.Name()+"."+f.Name] {
				continue
			}
			if d := cmp(a.Field(i), b.Field(i), path+"."+f.Name, f.Name, o); d != "" {
				return d
			}
		}
		return ""
	case reflect.Map:
		if !o.Exact && a.Len() == 0 && b.Len() == 0 {
			return ""
		}
		if o.Exact && a.IsNil() != b.IsNil() {
			return fmt.Sprintf("%s: nil map vs empty map", path)
		}
		keys := map[string]reflect.Value{}
		for _, k := range a.MapKeys() {
			keys[fmt.Sprint(k.Interface())] = k
		}
		for _, k := range b.MapKeys() {
			keys[fmt.Sprint(k.Interface())] = k
		}
		names := make([]string, 0, len(keys))
		for n := range keys {
			names = append(names, n)
		}
		sort.Strings(names)
		for _, n := range names {
			k := keys[n]
			av, bv := a.MapIndex(k), b.MapIndex(k)
			if !av.IsValid() || !bv.IsValid() {
				return fmt.Sprintf("%s[%s]: present only on one side (%s vs %s)", path, n, show(av), show(bv))
			}
			if d := cmp(av, bv, path+"["+n+"]", field, o); d != "" {
				return d
			}
		}
		return ""
	case reflect.Slice:
		if !o.Exact && a.Len() == 0 && b.Len() == 0 {
			return ""
		}
		if o.Exact && a.IsNil() != b.IsNil() {
			return fmt.Sprintf("%s: nil slice vs empty slice", path)
		}
		if a.Len() != b.Len() {
			return fmt.Sprintf("%s: length %d != %d (%s vs %s)", path, a.Len(), b.Len(), show(a), show(b))
		}
		if !o.Exact && (o.UnorderedElem[a.Type().Elem().Name()] || o.UnorderedField[field]) {
			used := make([]bool, b.Len())
			for i := 0; i < a.Len(); i++ {
				found := false
				for j := 0; j < b.Len(); j++ {
					if used[j] {
						continue
					}
					if cmp(a.Index(i), b.Index(j), path, field, o) == "" {
						used[j] = true
						found = true
						break
					}
				}
				if !found {
					return fmt.Sprintf("%s: element %s has no equal on the other side (%s)", path, show(a.Index(i)), show(b))
				}
			}
			return ""
		}
		for i := 0; i < a.Len(); i++ {
			if d := cmp(a.Index(i), b.Index(i), fmt.Sprintf("%s[%d]", path, i), field, o); d != "" {
				return d
			}
		}
		return ""
	case reflect.Array:
		for i := 0; i < a.Len(); i++ {
			if d := cmp(a.Index(i), b.Index(i), fmt.Sprintf("%s[%d]", path, i), field, o); d != "" {
				return d
			}
		}
		return ""
	case reflect.Func:
		if a.IsNil() && b.IsNil() {
			return ""
		}
		return path + ": func values"
	default:
		var eq bool
		switch a.Kind() {
		case reflect.Bool:
			eq = a.Bool() == b.Bool()
		case reflect.Int, reflect.Int8, reflect.Int16, reflect.Int32, reflect.Int64:
			eq = a.Int() == b.Int()
		case reflect.Uint, reflect.Uint8, reflect.Uint16, reflect.Uint32, reflect.Uint64, reflect.Uintptr:
			eq = a.Uint() == b.Uint()
		case reflect.Float32, reflect.Float64:
			eq = a.Float() == b.Float()
		case reflect.String:
			eq = a.String() == b.String()
		default:
			eq = a.CanInterface() && b.CanInterface() && reflect.DeepEqual(a.Interface(), b.Interface())
		}
		if !eq {
			return fmt.Sprintf("%s: %s != %s", path, show(a), show(b))
		}
		return ""
	}
}

// PathOf strips the leading dot of a diff description's path (for violation attributes).
func PathOf(d string) string {
	i := strings.Index(d, ":")
	if i < 0 {
		return d
	}
	p := strings.TrimPrefix(d[:i], ".")
	// drop map keys / indexes so the attribute is stable across random names
	var sb strings.Builder
	depth := 0
	for _, r := range p {
		switch {
		case r == '[':
			depth++
		case r == ']':
			depth--
		case depth == 0:
			sb.WriteRune(r)
		}
	}
	return sb.String()
}
