package c20

import (
	"encoding/json"
	"fmt"
	"math/rand"
	"regexp"
	"sort"
	"strings"

	"verif/harness/internal/core"
	"verif/harness/internal/ld"
)

const alnum = "abcdefghijklmnopqrstuvwxyzABCDEFGHIJKLMNOPQRSTUVWXYZ0123456789"

func newCore(r *rand.Rand) string {
	b := make([]byte, 24)
	for i := range b {
		if i == 0 {
			b[i] = alnum[r.Intn(52)]
		} else {
			b[i] = alnum[r.Intn(len(alnum))]
		}
	}
	return string(b)
}

func digitCore(r *rand.Rand) string {
	b := make([]byte, 24)
	for i := range b {
		b[i] = byte('0' + r.Intn(10))
		if i == 0 && b[i] == '0' {
			b[i] = '7'
		}
	}
	return string(b)
}

type decoration struct {
	name string
	mk   func(r *rand.Rand) (string, []string)
}

func one(f func(c string) string) func(r *rand.Rand) (string, []string) {
	return func(r *rand.Rand) (string, []string) { c := newCore(r); return f(c), []string{c} }
}

func two(f func(a, b string) string) func(r *rand.Rand) (string, []string) {
	return func(r *rand.Rand) (string, []string) { a, b := newCore(r), newCore(r); return f(a, b), []string{a, b} }
}

var decorations = []decoration{
	{"plain", one(func(c string) string { return c })},
	{"colon-space", one(func(c string) string { return "key: " + c })},
	{"hash", one(func(c string) string { return c + " #not-a-comment" })},
	{"double-quote", one(func(c string) string { return `say "` + c + `"` })},
	{"single-quote", one(func(c string) string { return "it's '" + c + "'" })},
	{"newline", two(func(a, b string) string { return a + "\n" + b })},
	{"trailing-newline", one(func(c string) string { return c + "\n" })},
	{"crlf", two(func(a, b string) string { return a + "\r\n" + b })},
	{"dollar-brace", one(func(c string) string { return "${" + c + "}" })},
	{"dollar-mix", one(func(c string) string { return "pre$" + c + "$$post${X:-d}" })},
	{"leading-space", one(func(c string) string { return "  " + c })},
	{"trailing-space", one(func(c string) string { return c + "  " })},
	{"flow", one(func(c string) string { return "{" + c + ": [1, 2]}" })},
	{"anchor-alias", one(func(c string) string { return "&" + c + " *" + c })},
	{"tag", one(func(c string) string { return "!!str " + c })},
	{"dash", one(func(c string) string { return "- " + c })},
	{"digits", func(r *rand.Rand) (string, []string) { c := digitCore(r); return c, []string{c} }},
	{"indicators", one(func(c string) string { return "%" + c + " @x `y` | > ?" })},
	{"tab", two(func(a, b string) string { return a + "\t" + b })},
	{"unicode", one(func(c string) string { return c + "-é日本" })},
	{"backslash", one(func(c string) string { return `C:\path\` + c + `\n` })},
	{"html", one(func(c string) string { return "<" + c + ">&amp;" })},
	{"multi-paragraph", two(func(a, b string) string { return "-----BEGIN KEY-----\n" + a + "\n\n  " + b + "\n-----END KEY-----\n" })},
	{"yaml-doc", one(func(c string) string { return "---\nsecrets: {x: {content: " + c + "}}\n..." })},
}

func q(s string) string { b, _ := json.Marshal(s); return string(b) }

var optSets = []ld.Opts{
	{},
	{SkipNormalization: true},
	{SkipConsistencyCheck: true},
	{SkipValidation: true},
	{NoResolvePaths: true},
	{SkipResolveEnvironment: true},
	{SkipDefaultValues: true},
	{SkipInterpolation: true},
}

func pick(r *rand.Rand, weights ...int) int {
	t := 0
	for _, w := range weights {
		t += w
	}
	x := r.Intn(t)
	for i, w := range weights {
		if x < w {
			return i
		}
		x -= w
	}
	return 0
}

var plainCanary = regexp.MustCompile(`^[A-Za-z0-9]+$`)

// build draws one case.
func build(r *rand.Rand, idx int) *kase {
	k := &kase{}
	env := map[string]string{}
	files := map[string]string{}
	placements := []string{"main", "override", "include", "repoint", "include-repoint"}
	nobj := 0
	addObj := func(section, kind string) {
		nobj++
		o := object{Section: section, Kind: kind, Name: fmt.Sprintf("%s%d", map[string]string{"secrets": "sec", "configs": "cfg"}[section], nobj)}
		if kind == "environment" {
			if section == "secrets" {
				o.Placement = placements[pick(r, 4, 2, 2, 2, 1)]
			} else {
				// an environment-sourced config declared in an included file does not load on
				// this tree when its variable is defined (see FINDINGS.md): keep it rare so
				// that the other objects of the model are still observed
				o.Placement = placements[pick(r, 16, 8, 1, 8)]
			}
			d := decorations[r.Intn(len(decorations))]
			o.Decor = d.name
			o.Canary, o.Cores = d.mk(r)
			o.Var = fmt.Sprintf("C20_%s_%d", strings.ToUpper(o.Name), r.Intn(1000))
			o.Defined = r.Intn(10) != 0
			if o.Defined {
				env[o.Var] = o.Canary
			}
			if o.Placement == "repoint" || o.Placement == "include-repoint" {
				d2 := decorations[r.Intn(len(decorations))]
				o.OldCanary, o.OldCores = d2.mk(r)
				o.OldVar = o.Var + "_OLD"
				env[o.OldVar] = o.OldCanary
			}
		} else {
			o.Placement = placements[pick(r, 5, 2, 2)]
			if kind == "file" && r.Intn(3) == 0 {
				// declared as sourced from a (defined) variable by the main or an included file, turned
				// into a file object by the override file: the variable's value has no business anywhere
				o.Placement = []string{"to-file", "include-to-file"}[r.Intn(2)]
				d2 := decorations[r.Intn(len(decorations))]
				o.OldCanary, o.OldCores = d2.mk(r)
				o.OldVar = fmt.Sprintf("C20_%s_%d_OLD", strings.ToUpper(o.Name), r.Intn(1000))
				env[o.OldVar] = o.OldCanary
			}
		}
		k.Objects = append(k.Objects, o)
	}
	for {
		k.Objects = nil
		nobj = 0
		for i, n := 0, pick(r, 1, 4, 3, 2, 1); i < n; i++ {
			addObj("secrets", "environment")
		}
		for i, n := 0, pick(r, 3, 2, 1); i < n; i++ {
			addObj("secrets", "file")
		}
		for i, n := 0, pick(r, 3, 1); i < n; i++ {
			addObj("secrets", "external")
		}
		for i, n := 0, pick(r, 3, 3, 2, 1, 1); i < n; i++ {
			addObj("configs", "environment")
		}
		for i, n := 0, pick(r, 3, 2, 1); i < n; i++ {
			addObj("configs", "file")
		}
		for i, n := 0, pick(r, 3, 2, 1); i < n; i++ {
			addObj("configs", "content")
		}
		for i, n := 0, pick(r, 3, 1); i < n; i++ {
			addObj("configs", "external")
		}
		hasEnv := false
		for _, o := range k.Objects {
			if o.Kind == "environment" {
				hasEnv = true
			}
		}
		if hasEnv {
			break
		}
		for v := range env {
			delete(env, v)
		}
	}

	// object bodies per file
	body := func(o object, varName string, full bool) string {
		var sb strings.Builder
		ind := "    "
		switch o.Kind {
		case "environment":
			sb.WriteString(ind + "environment: " + q(varName) + "\n")
		case "file":
			p := "./data/" + o.Name + ".txt"
			sb.WriteString(ind + "file: " + p + "\n")
		case "content":
			sb.WriteString(ind + "content: " + q("inline text of "+o.Name+"\nsecond line: ${NOT_A_VAR:-kept}") + "\n")
		case "external":
			sb.WriteString(ind + "external: true\n")
		}
		if full {
			h := 0
			for _, c := range o.Name {
				h = h*31 + int(c)
			}
			h += idx
			if h%3 == 0 {
				sb.WriteString(ind + "name: " + q("custom-"+o.Name) + "\n")
			}
			if h%4 == 1 && o.Kind != "external" {
				sb.WriteString(ind + "labels:\n" + ind + "  com.example.owner: " + q("team-"+o.Name) + "\n")
			}
			if h%5 == 2 {
				sb.WriteString(ind + "x-note: " + q("extension on "+o.Name) + "\n")
			}
			if h%7 == 3 && o.Kind == "environment" {
				sb.WriteString(ind + "x-list:\n" + ind + "  - a\n" + ind + "  - b\n")
			}
		}
		return sb.String()
	}
	sections := map[string]map[string][]string{"main": {}, "override": {}, "include": {}}
	put := func(file, section, name, text string) {
		sections[file][section] = append(sections[file][section], "  "+name+":\n"+text)
	}
	for _, o := range k.Objects {
		if o.Kind == "file" {
			dir := ""
			if o.Placement == "include" {
				dir = "inc/"
			}
			files[dir+"data/"+o.Name+".txt"] = "file payload of " + o.Name + "\n"
		}
		switch o.Placement {
		case "main", "override", "include":
			put(o.Placement, o.Section, o.Name, body(o, o.Var, true))
		case "repoint":
			put("main", o.Section, o.Name, body(o, o.OldVar, true))
			put("override", o.Section, o.Name, "    environment: "+q(o.Var)+"\n")
		case "include-repoint":
			put("include", o.Section, o.Name, body(o, o.OldVar, true))
			put("override", o.Section, o.Name, "    environment: "+q(o.Var)+"\n")
		case "to-file", "include-to-file":
			first := "main"
			if o.Placement == "include-to-file" {
				first = "include"
			}
			put(first, o.Section, o.Name, "    environment: "+q(o.OldVar)+"\n")
			put("override", o.Section, o.Name, "    environment: !reset null\n    file: ./data/"+o.Name+".txt\n")
		}
	}

	// services
	nsvc := 1 + r.Intn(3)
	var svcText strings.Builder
	for i := 0; i < nsvc; i++ {
		name := fmt.Sprintf("svc%d", i)
		k.Services = append(k.Services, name)
		svcText.WriteString("  " + name + ":\n    image: " + q(fmt.Sprintf("registry.example/app%d:1.%d", i, r.Intn(9))) + "\n")
		if i > 0 && r.Intn(3) == 0 {
			svcText.WriteString("    profiles: [extra]\n")
		}
		if i > 0 && r.Intn(2) == 0 {
			svcText.WriteString("    depends_on: [svc0]\n")
		}
		for _, section := range []string{"secrets", "configs"} {
			var refs []string
			for _, o := range k.Objects {
				if o.Section != section || r.Intn(2) == 0 {
					continue
				}
				if r.Intn(2) == 0 {
					refs = append(refs, "      - "+o.Name+"\n")
				} else {
					refs = append(refs, "      - source: "+o.Name+"\n        target: "+q("/run/"+section+"/"+o.Name)+"\n        mode: 0440\n")
				}
			}
			if len(refs) > 0 {
				svcText.WriteString("    " + section + ":\n" + strings.Join(refs, ""))
			}
		}
	}

	render := func(file string, services string, include bool) string {
		var sb strings.Builder
		if include {
			sb.WriteString("include:\n  - inc/included.yaml\n")
		}
		if services != "" {
			sb.WriteString("services:\n" + services)
		}
		for _, section := range []string{"secrets", "configs"} {
			if es := sections[file][section]; len(es) > 0 {
				// seeded order of the entries
				r.Shuffle(len(es), func(i, j int) { es[i], es[j] = es[j], es[i] })
				sb.WriteString(section + ":\n" + strings.Join(es, ""))
			}
		}
		return sb.String()
	}
	hasInclude := len(sections["include"]["secrets"])+len(sections["include"]["configs"]) > 0
	hasOverride := len(sections["override"]["secrets"])+len(sections["override"]["configs"]) > 0
	files["compose.yaml"] = render("main", svcText.String(), hasInclude)
	k.LD.ComposeFiles = []string{"compose.yaml"}
	if hasInclude {
		files["inc/included.yaml"] = render("include", "", false)
		// for some objects of the included file the variable is defined by the included project's own
		// .env only (not by the parent environment): the value must reach the project all the same
		var dotenv strings.Builder
		for _, o := range k.Objects {
			if o.Placement == "include" && o.Kind == "environment" && o.Defined && plainCanary.MatchString(o.Canary) && r.Intn(2) == 0 {
				delete(env, o.Var)
				dotenv.WriteString(o.Var + "=" + o.Canary + "\n")
			}
		}
		if dotenv.Len() > 0 {
			files["inc/.env"] = dotenv.String()
		}
	}
	if hasOverride {
		files["override.yaml"] = render("override", "", false)
		k.LD.ComposeFiles = append(k.LD.ComposeFiles, "override.yaml")
	}
	k.LD.Files = files
	k.LD.Env = env
	k.LD.Opts = optSets[idx%len(optSets)]
	sort.Slice(k.Objects, func(i, j int) bool { return k.Objects[i].Name < k.Objects[j].Name })
	return k
}

func run(s *core.Shard) {
	n := s.Pick(3000, 50000)
	r := s.Rand("models")
	active := true
	mine := 0
	for i := 0; i < n; i++ {
		k := build(r, i) // drawn by every shard so that the sequence is shared
		if !s.Mine(i) {
			continue
		}
		mine++
		if mine%20 == 1 {
			active = s.Begin(fmt.Sprintf("model/%d", i))
		}
		if !active {
			continue
		}
		judge(s, k)
	}
}

var _ = core.Guard
