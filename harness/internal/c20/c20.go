// Package c20 checks property C20: secret values taken from the environment
// never leak into rendered output. Generated models carry secrets and configs
// of every source kind whose environment values are unique canary strings; the
// loaded project and every derivation of it are rendered {YAML, JSON} x
// {default, WithSecretContent} and the whole output is searched for every canary.
package c20

import (
	"bytes"
	"encoding/json"
	"fmt"
	"path/filepath"
	"reflect"
	"sort"
	"strings"
	"sync"
	"sync/atomic"

	"github.com/compose-spec/compose-go/v2/types"
	"github.com/distribution/reference"
	godigest "github.com/opencontainers/go-digest"
	"github.com/sirupsen/logrus"
	"gopkg.in/yaml.v3"

	"verif/harness/internal/core"
	"verif/harness/internal/ld"
)

const carrier = "x-#value"

func init() {
	logrus.SetLevel(logrus.PanicLevel)
	core.Register(&core.Spec{
		ID:    "C20",
		Level: "exploration",
		Rule: "seeded models with 0..4 secrets of each kind {environment, file, external} and 0..4 configs of each kind {environment, file, content, external} (at least one environment-sourced object), " +
			"environment values = unique canaries (a 24-character random core wrapped in YAML/JSON-significant decorations: `: `, ` #`, quotes, newlines, `${`, leading/trailing blanks, flow/anchor/tag indicators, digits only), " +
			"objects referenced or not by 1..3 services in short or long syntax, defined in the main file, an override file, an included file, or declared in the main file and re-pointed to another variable by the override file; " +
			"loaded with the real loader under 7 option sets; the project, then 11 derivations of it (WithProfiles, WithServicesEnabled, WithoutUnnecessaryResources, WithSelectedServices, WithServicesDisabled, WithImagesResolved, " +
			"WithServicesEnvironmentResolved, WithServicesLabelsResolved, WithServicesTransform, and derivations taken after a WithSecretContent rendering) are each rendered YAML and JSON, default and WithSecretContent; for a third of the cases plain renderings (of the project and of an independent copy) also run in three goroutines while a fourth renders with secret content, and must equal the quiet rendering byte for byte. " +
			"A case is non-trivial when the load succeeded and at least one environment-sourced secret carries its canary in Content; distinct = distinct case inputs.",
		Assumptions: []string{
			"a leak of a canary contains its 24-character alphanumeric core verbatim (escaping cannot alter it); transformed leaks (base64, hashing) are not searched",
			"the canary variable is referenced only by the `environment` key of the secret/config (a service that interpolates or passes the variable itself would legitimately render it)",
			"the clause about configs is read unconditionally: a config sourced from the environment renders its variable name and never its resolved content, in both rendering modes",
			"`reproduces the value exactly' is judged on the decoded rendering (yaml.v3 / encoding/json decoding of the output), not on a byte layout",
			"the raw model returned by LoadModelWithContext is not a rendering of the project and is not searched",
		},
		Run:     run,
		Replay:  replay,
		Witness: witness,
		Floor: func(tier string, m *core.Merged) []string {
			var r []string
			if m.Counters["loads_ok"] < 500 || m.Counters["renderings_searched"] < 20000 || m.Counters["secret_content_reproduced"] < 2000 {
				r = append(r, fmt.Sprintf("too few observations: %v", m.Counters))
			}
			if m.Counters["loads_err"]*5 > m.Counters["loads_ok"] {
				r = append(r, fmt.Sprintf("too many generated cases fail to load: %d of %d", m.Counters["loads_err"], m.Counters["loads_ok"]+m.Counters["loads_err"]))
			}
			for _, k := range []string{"main", "override", "include", "repoint", "include-repoint"} {
				if m.Cover["placement"][k] == 0 {
					r = append(r, "placement never exercised: "+k)
				}
			}
			if len(m.Cover["derivation"]) < 10 {
				r = append(r, "fewer than 10 derivations exercised")
			}
			return r
		},
	})
}

// ---------------------------------------------------------------------------
// case description (JSON for replay)

type object struct {
	Section   string   `json:"section"` // secrets | configs
	Name      string   `json:"name"`
	Kind      string   `json:"kind"`      // environment | file | content | external
	Placement string   `json:"placement"` // main | override | include | repoint
	Var       string   `json:"var,omitempty"`
	Canary    string   `json:"canary,omitempty"`
	Cores     []string `json:"cores,omitempty"`
	Defined   bool     `json:"defined,omitempty"`
	// repoint: the main file names OldVar (defined, with its own canary), the override names Var
	OldVar    string   `json:"old_var,omitempty"`
	OldCanary string   `json:"old_canary,omitempty"`
	OldCores  []string `json:"old_cores,omitempty"`
	Decor     string   `json:"decor,omitempty"`
}

type kase struct {
	LD       ld.Case  `json:"ld"`
	Objects  []object `json:"objects"`
	Services []string `json:"services"`
}

// ---------------------------------------------------------------------------
// reflective dump (includes unexported fields, follows pointers, sorts map keys)

func dump(v any) string {
	var sb strings.Builder
	dumpValue(&sb, reflect.ValueOf(v), 0)
	return sb.String()
}

func dumpValue(sb *strings.Builder, v reflect.Value, depth int) {
	if !v.IsValid() {
		sb.WriteString("<invalid>")
		return
	}
	if depth > 60 {
		sb.WriteString("<deep>")
		return
	}
	switch v.Kind() {
	case reflect.Ptr, reflect.Interface:
		if v.IsNil() {
			sb.WriteString("nil")
			return
		}
		sb.WriteString("&")
		dumpValue(sb, v.Elem(), depth+1)
	case reflect.Struct:
		t := v.Type()
		sb.WriteString(t.Name() + "{")
		for i := 0; i < v.NumField(); i++ {
			sb.WriteString(t.Field(i).Name + ":")
			dumpValue(sb, v.Field(i), depth+1)
			sb.WriteString(";")
		}
		sb.WriteString("}")
	case reflect.Map:
		if v.IsNil() {
			sb.WriteString("nilmap")
			return
		}
		type kv struct {
			k string
			v reflect.Value
		}
		var kvs []kv
		it := v.MapRange()
		for it.Next() {
			var kb strings.Builder
			dumpValue(&kb, it.Key(), depth+1)
			kvs = append(kvs, kv{kb.String(), it.Value()})
		}
		sort.Slice(kvs, func(i, j int) bool { return kvs[i].k < kvs[j].k })
		sb.WriteString("map[")
		for _, e := range kvs {
			sb.WriteString(e.k + "=>")
			dumpValue(sb, e.v, depth+1)
			sb.WriteString(",")
		}
		sb.WriteString("]")
	case reflect.Slice, reflect.Array:
		if v.Kind() == reflect.Slice && v.IsNil() {
			sb.WriteString("nilslice")
			return
		}
		sb.WriteString("[")
		for i := 0; i < v.Len(); i++ {
			dumpValue(sb, v.Index(i), depth+1)
			sb.WriteString(",")
		}
		sb.WriteString("]")
	case reflect.String:
		fmt.Fprintf(sb, "%q", v.String())
	case reflect.Bool:
		fmt.Fprintf(sb, "%t", v.Bool())
	case reflect.Int, reflect.Int8, reflect.Int16, reflect.Int32, reflect.Int64:
		fmt.Fprintf(sb, "%d", v.Int())
	case reflect.Uint, reflect.Uint8, reflect.Uint16, reflect.Uint32, reflect.Uint64, reflect.Uintptr:
		fmt.Fprintf(sb, "%d", v.Uint())
	case reflect.Float32, reflect.Float64:
		fmt.Fprintf(sb, "%g", v.Float())
	case reflect.Func, reflect.Chan, reflect.UnsafePointer:
		if v.IsNil() {
			sb.WriteString("nil")
		} else {
			sb.WriteString("<" + v.Kind().String() + ">")
		}
	default:
		sb.WriteString("<" + v.Kind().String() + ">")
	}
}

// ---------------------------------------------------------------------------
// judging

type judgeCtx struct {
	s     *core.Shard
	k     *kase
	files map[string]any
	// expectations
	secretVal map[string]string // secret name -> value its variable has ("" and !secretDef => undefined)
	secretDef map[string]bool
	secretVar map[string]string
	configVar map[string]string
	allCores  []coreRef
}

type coreRef struct {
	core    string
	section string
	name    string
	role    string // current | replaced
}

func (j *judgeCtx) vio(attrs map[string]string, what string) {
	if witnessHook != nil {
		witnessHook.attrs = append(witnessHook.attrs, attrs)
		return
	}
	j.s.Violation(attrs, what+" [options="+j.k.LD.Opts.String()+"]", j.files)
}

type mode struct {
	format  string
	content bool
}

var modes = []mode{{"yaml", false}, {"json", false}, {"yaml", true}, {"json", true}}

func render(p *types.Project, m mode) (b []byte, err error, pi *core.PanicInfo) {
	pi = core.Guard(func() {
		switch {
		case m.format == "yaml" && !m.content:
			b, err = p.MarshalYAML()
		case m.format == "yaml":
			b, err = p.MarshalYAML(types.WithSecretContent)
		case !m.content:
			b, err = p.MarshalJSON()
		default:
			b, err = p.MarshalJSON(types.WithSecretContent)
		}
	})
	return
}

func modeName(m mode) string {
	if m.content {
		return m.format + "+content"
	}
	return m.format
}

// renderAll renders p in the four modes and applies monitors 1, 3, 4, 5.
func (j *judgeCtx) renderAll(p *types.Project, deriv string) {
	s := j.s
	s.Cover("derivation", deriv)
	for _, m := range modes {
		before := dump(p)
		b, err, pi := render(p, m)
		s.Eval(1)
		attrs := func(kind string) map[string]string {
			return map[string]string{"kind": kind, "format": m.format, "mode": map[bool]string{false: "default", true: "secret-content"}[m.content], "derivation": deriv}
		}
		if pi != nil {
			a := attrs("panic")
			a["site"], a["class"] = pi.Site, pi.Class
			j.files["stack.txt"] = pi.Stack
			j.vio(a, "rendering panicked: "+pi.Value)
			continue
		}
		if after := dump(p); after != before {
			j.vio(attrs("project-modified-by-rendering"), fmt.Sprintf("rendering %s of %s modified the project: %s", modeName(m), deriv, firstDiff(before, after)))
		}
		if err != nil {
			s.Add("render_errors", 1)
			j.vio(attrs("render-error"), fmt.Sprintf("rendering %s of %s failed: %v", modeName(m), deriv, err))
			continue
		}
		s.Add("renderings_searched", 1)
		if bytes.Contains(b, []byte(carrier)) {
			j.vio(attrs("carrier-key-rendered"), fmt.Sprintf("private carrier key %s appears in the %s rendering of %s", carrier, modeName(m), deriv))
		}
		// decode
		var doc map[string]any
		if m.format == "yaml" {
			err = yaml.Unmarshal(b, &doc)
		} else {
			err = json.Unmarshal(b, &doc)
		}
		if err != nil {
			j.vio(attrs("rendering-undecodable"), fmt.Sprintf("%s rendering of %s cannot be decoded: %v", modeName(m), deriv, err))
			continue
		}
		secrets, _ := doc["secrets"].(map[string]any)
		configs, _ := doc["configs"].(map[string]any)
		// canary search over the whole output
		allowed := map[string]bool{} // cores allowed to appear (content mode, secret still present)
		if m.content {
			for name := range p.Secrets {
				if j.secretDef[name] {
					for _, c := range j.coresOf("secrets", name) {
						allowed[c] = true
					}
				}
			}
		}
		for _, cr := range j.allCores {
			n := bytes.Count(b, []byte(cr.core))
			if n == 0 {
				continue
			}
			if cr.role == "replaced" && cr.section == "secrets" && m.content && !j.secretDef[cr.name] && n <= strings.Count(p.Secrets[cr.name].Content, cr.core) {
				// observation O2 (FINDINGS.md): the secret's variable is undefined and Content still
				// holds the value of the variable it was re-pointed from; the caller asked for
				// secret content, so this is not a leak in the sense of the statement
				s.Add("stale_content_rendered_on_request_observed", 1)
				continue
			}
			if cr.role == "current" && cr.section == "secrets" && allowed[cr.core] {
				if n > strings.Count(j.secretVal[cr.name], cr.core) {
					a := attrs("canary-rendered-twice")
					a["section"] = cr.section
					j.vio(a, fmt.Sprintf("canary of secret %s appears %d times in the %s rendering of %s", cr.name, n, modeName(m), deriv))
				}
				continue
			}
			a := attrs("canary-leaked")
			a["section"], a["role"] = cr.section, cr.role
			a["where"] = locate(doc, cr.core)
			j.vio(a, fmt.Sprintf("canary of %s %s (%s variable) appears in the %s rendering of %s at %s", cr.section, cr.name, cr.role, modeName(m), deriv, a["where"]))
		}
		// per-object decoded checks
		for name, sc := range p.Secrets {
			v, isEnv := j.secretVar[name]
			if !isEnv {
				continue
			}
			obj, _ := secrets[name].(map[string]any)
			if obj == nil {
				a := attrs("secret-missing-from-rendering")
				j.vio(a, fmt.Sprintf("secret %s of %s is missing from the %s rendering", name, deriv, modeName(m)))
				continue
			}
			if got, _ := obj["environment"].(string); got != v || sc.Environment != v {
				j.vio(attrs("secret-source-variable-not-rendered"), fmt.Sprintf("secret %s renders environment=%q (project has %q), expected %q", name, got, sc.Environment, v))
			}
			got, has := obj["content"]
			switch {
			case !m.content:
				if has {
					a := attrs("secret-content-key-rendered")
					j.vio(a, fmt.Sprintf("secret %s has a content key (%q) in the default %s rendering of %s", name, got, m.format, deriv))
				}
			case j.secretDef[name] && j.secretVal[name] != "":
				gs, _ := got.(string)
				if !has || gs != j.secretVal[name] {
					a := attrs("secret-content-not-reproduced")
					a["decor"] = j.decorOf("secrets", name)
					j.vio(a, fmt.Sprintf("secret %s: %s rendering with secret content gives %q, the value is %q", name, m.format, gs, j.secretVal[name]))
				} else {
					s.Add("secret_content_reproduced", 1)
				}
			}
		}
		for name := range p.Configs {
			v, isEnv := j.configVar[name]
			if !isEnv {
				continue
			}
			obj, _ := configs[name].(map[string]any)
			if obj == nil {
				j.vio(attrs("config-missing-from-rendering"), fmt.Sprintf("config %s of %s is missing from the %s rendering", name, deriv, modeName(m)))
				continue
			}
			if got, _ := obj["environment"].(string); got != v {
				j.vio(attrs("config-source-variable-not-rendered"), fmt.Sprintf("config %s renders environment=%q, expected %q", name, got, v))
			}
			if got, has := obj["content"]; has {
				j.vio(attrs("config-content-rendered"), fmt.Sprintf("config %s sourced from %s renders content %q in the %s rendering of %s", name, v, got, modeName(m), deriv))
			}
		}
	}
}

// overlapping: plain renderings that overlap in time with a rendering for which another goroutine
// asked for secret content. Nobody asked for content in the plain ones: they must be byte for byte
// what the same project renders when nothing else is going on (searched for canaries above).
func (j *judgeCtx) overlapping(p *types.Project) {
	s := j.s
	quiet := map[string][]byte{}
	for _, m := range modes[:2] {
		b, err, pi := render(p, m)
		if err != nil || pi != nil {
			return
		}
		quiet[m.format] = b
	}
	other, err := p.WithProfiles(p.Profiles) // an independent copy of the project
	if err != nil {
		return
	}
	const rounds = 30
	var stop atomic.Bool
	var plain, content sync.WaitGroup
	var mu sync.Mutex
	var bad []string
	content.Add(1)
	go func() {
		defer content.Done()
		for i := 0; !stop.Load(); i++ {
			_, _, _ = render(p, modes[2+i%2])
		}
	}()
	for g := 0; g < 3; g++ {
		plain.Add(1)
		go func(g int) {
			defer plain.Done()
			q := p
			if g == 2 {
				q = other
			}
			for i := 0; i < rounds; i++ {
				m := modes[(g+i)%2]
				b, err, pi := render(q, m)
				if err == nil && pi == nil && bytes.Equal(b, quiet[m.format]) {
					continue
				}
				what := fmt.Sprintf("plain %s rendering #%d of goroutine %d", m.format, i, g)
				switch {
				case pi != nil:
					what += " panicked: " + pi.Value
				case err != nil:
					what += " failed: " + err.Error()
				default:
					what += " differs from the quiet rendering: " + firstDiff(string(quiet[m.format]), string(b))
				}
				mu.Lock()
				bad = append(bad, what)
				mu.Unlock()
				return
			}
		}(g)
	}
	plain.Wait()
	stop.Store(true)
	content.Wait()
	s.Eval(3 * rounds)
	s.Add("plain_renderings_overlapping_a_secret_content_rendering", 3*rounds)
	s.Cover("derivation", "plain rendering overlapping a rendering with secret content")
	if len(bad) > 0 {
		leak := ""
		for _, cr := range j.allCores {
			if strings.Contains(bad[0], cr.core) {
				leak = " (canary of " + cr.section + " " + cr.name + ")"
			}
		}
		j.vio(map[string]string{"kind": "plain-rendering-changed-by-overlapping-content-rendering"},
			"while another goroutine renders with secret content: "+bad[0]+leak)
	}
}

// failing is an extension payload whose rendering fails.
type failing struct{}

func (failing) MarshalYAML() (any, error)    { return nil, fmt.Errorf("this payload cannot be rendered") }
func (failing) MarshalJSON() ([]byte, error) { return nil, fmt.Errorf("this payload cannot be rendered") }

// afterFailedRendering: a rendering with secret content that fails half way (an extension payload
// that cannot be rendered, emitted after the secrets) leaves nothing behind: the next plain
// renderings are what they are when nothing failed before.
func (j *judgeCtx) afterFailedRendering(p *types.Project) {
	quiet := map[string][]byte{}
	for _, m := range modes[:2] {
		b, err, pi := render(p, m)
		if err != nil || pi != nil {
			return
		}
		quiet[m.format] = b
	}
	q, err := p.WithProfiles(p.Profiles)
	if err != nil {
		return
	}
	if q.Extensions == nil {
		q.Extensions = types.Extensions{}
	}
	q.Extensions["x-zz-unrenderable"] = failing{}
	failed := 0
	for _, m := range modes[2:] {
		if _, err, pi := render(q, m); err != nil && pi == nil {
			failed++
		}
	}
	j.s.Eval(4)
	if failed == 0 {
		j.s.Add("failing_rendering_did_not_fail", 1)
		return
	}
	j.s.Add("plain_renderings_after_a_failed_content_rendering", 2)
	for _, m := range modes[:2] {
		b, err, pi := render(p, m)
		if err != nil || pi != nil || !bytes.Equal(b, quiet[m.format]) {
			what := "differs: " + firstDiff(string(quiet[m.format]), string(b))
			if err != nil {
				what = "fails: " + err.Error()
			}
			j.vio(map[string]string{"kind": "plain-rendering-changed-by-failed-content-rendering", "format": m.format},
				"after a rendering with secret content of a copy of the project failed half way, the plain "+m.format+" rendering "+what)
			return
		}
	}
}

func (j *judgeCtx) coresOf(section, name string) []string {
	for _, o := range j.k.Objects {
		if o.Section == section && o.Name == name {
			return o.Cores
		}
	}
	return nil
}

func (j *judgeCtx) decorOf(section, name string) string {
	for _, o := range j.k.Objects {
		if o.Section == section && o.Name == name {
			return o.Decor
		}
	}
	return ""
}

// locate returns a stable description of where a core occurs in the decoded
// document: the key path with object names replaced by *.
func locate(doc any, core string) string {
	var found string
	var walk func(v any, path []string)
	walk = func(v any, path []string) {
		if found != "" {
			return
		}
		switch x := v.(type) {
		case map[string]any:
			keys := make([]string, 0, len(x))
			for k := range x {
				keys = append(keys, k)
			}
			sort.Strings(keys)
			for _, k := range keys {
				if strings.Contains(k, core) {
					found = strings.Join(append(path, "<key>"), ".")
					return
				}
				walk(x[k], append(path, k))
			}
		case []any:
			for _, e := range x {
				walk(e, append(path, "[]"))
			}
		case string:
			if strings.Contains(x, core) {
				found = strings.Join(path, ".")
			}
		}
	}
	walk(doc, nil)
	if found == "" {
		return "undecoded-bytes"
	}
	// generalise object names: secrets.<name>.x -> secrets.*.x
	parts := strings.Split(found, ".")
	if len(parts) >= 2 && (parts[0] == "secrets" || parts[0] == "configs" || parts[0] == "services" || parts[0] == "networks" || parts[0] == "volumes") {
		parts[1] = "*"
	}
	return strings.Join(parts, ".")
}

func firstDiff(a, b string) string {
	i := 0
	for i < len(a) && i < len(b) && a[i] == b[i] {
		i++
	}
	lo := i - 60
	if lo < 0 {
		lo = 0
	}
	end := func(s string) string {
		hi := i + 40
		if hi > len(s) {
			hi = len(s)
		}
		return s[lo:hi]
	}
	return fmt.Sprintf("...%s... became ...%s...", end(a), end(b))
}

// judge loads the case and applies every monitor.
func judge(s *core.Shard, k *kase) {
	dir, res := ld.Run(s.Scratch(), &k.LD)
	_ = dir
	s.Eval(1)
	files := map[string]any{"case.json": k}
	for n, t := range k.LD.Files {
		files["input/"+n] = t
	}
	j := &judgeCtx{s: s, k: k, files: files, secretVal: map[string]string{}, secretDef: map[string]bool{}, secretVar: map[string]string{}, configVar: map[string]string{}}
	s.Cover("options", k.LD.Opts.String())
	if res.Panic != nil {
		ld.PanicViolation(s, res.Panic, &k.LD, nil)
		return
	}
	if res.Err != nil {
		// Known cause outside the statement (FINDINGS.md, observation O1): an
		// environment-sourced config declared in an included file whose variable is
		// defined is rejected as "mutually exclusive".
		if strings.Contains(res.Err.Error(), "attributes are mutually exclusive") && hasIncludedEnvConfig(k) {
			s.Add("loads_err_included_env_config", 1)
			return
		}
		s.Add("loads_err", 1)
		s.Cover("load-error", errClass(res.Err.Error()))
		return
	}
	s.Add("loads_ok", 1)
	p := res.Project
	for _, o := range k.Objects {
		s.Cover("placement", o.Placement)
		s.Cover("kind", o.Section+"/"+o.Kind)
		if o.Kind != "environment" {
			// (an object that an earlier layer sourced from a variable: that value is gone for good)
			for _, c := range o.OldCores {
				j.allCores = append(j.allCores, coreRef{c, o.Section, o.Name, "replaced"})
			}
			continue
		}
		s.Cover("decoration", o.Decor)
		for _, c := range o.Cores {
			j.allCores = append(j.allCores, coreRef{c, o.Section, o.Name, "current"})
		}
		for _, c := range o.OldCores {
			j.allCores = append(j.allCores, coreRef{c, o.Section, o.Name, "replaced"})
		}
		if o.Section == "secrets" {
			j.secretVar[o.Name] = o.Var
			j.secretDef[o.Name] = o.Defined
			if o.Defined {
				j.secretVal[o.Name] = o.Canary
			}
		} else {
			j.configVar[o.Name] = o.Var
		}
	}
	// monitor 2: the value is available on the loaded project
	nontrivial := false
	for _, o := range k.Objects {
		if o.Kind != "environment" {
			continue
		}
		want := ""
		if o.Defined {
			want = o.Canary
		}
		var got, gotVar string
		var present bool
		if o.Section == "secrets" {
			sc, ok := p.Secrets[o.Name]
			got, gotVar, present = sc.Content, sc.Environment, ok
		} else {
			cc, ok := p.Configs[o.Name]
			got, gotVar, present = cc.Content, cc.Environment, ok
		}
		if !present {
			j.vio(map[string]string{"kind": "object-missing", "section": o.Section, "placement": o.Placement}, fmt.Sprintf("%s %s missing from the loaded project", o.Section, o.Name))
			continue
		}
		if gotVar != o.Var {
			j.vio(map[string]string{"kind": "wrong-source-variable", "section": o.Section, "placement": o.Placement}, fmt.Sprintf("%s %s has environment=%q, expected %q", o.Section, o.Name, gotVar, o.Var))
		}
		if !o.Defined {
			// the statement speaks of the variable's value; with no value nothing is required
			if got != "" {
				s.Add("content_without_defined_variable_observed", 1)
				if o.OldCanary != "" && got == o.OldCanary {
					s.Add("stale_content_of_replaced_variable_observed", 1)
					s.Cover("stale-content", o.Section+"/"+o.Placement)
				}
			}
			continue
		}
		if got != want {
			from := "other"
			if got == "" {
				from = "empty"
			} else if o.OldCanary != "" && got == o.OldCanary {
				from = "replaced-variable"
			}
			j.vio(map[string]string{"kind": "content-not-available", "section": o.Section, "placement": o.Placement, "defined": fmt.Sprint(o.Defined), "got": from, "decor": o.Decor},
				fmt.Sprintf("%s %s (environment: %s, defined=%v): Content = %q, the variable's value is %q", o.Section, o.Name, o.Var, o.Defined, got, want))
		} else if o.Section == "secrets" && o.Defined {
			nontrivial = true
		}
	}
	if nontrivial {
		s.Nontrivial(k.LD.Key())
	}
	// monitor 5 on the project itself: carrier key in no Extensions
	if strings.Contains(dump(p), carrier) {
		j.vio(map[string]string{"kind": "carrier-key-in-project"}, "private carrier key "+carrier+" is present in the loaded project")
	}

	j.renderAll(p, "loaded")
	if nontrivial && len(k.LD.Key())%3 == 0 {
		j.overlapping(p)
	}
	if nontrivial {
		j.afterFailedRendering(p)
	}

	// derivations (taken after the project has been rendered with WithSecretContent)
	names := p.ServiceNames()
	sort.Strings(names)
	type deriv struct {
		name string
		fn   func() (*types.Project, error)
	}
	first := []string{}
	if len(names) > 0 {
		first = names[:1]
	}
	ds := []deriv{
		{"WithProfiles", func() (*types.Project, error) { return p.WithProfiles([]string{"extra"}) }},
		{"WithProfiles(none)", func() (*types.Project, error) { return p.WithProfiles(nil) }},
		{"WithServicesEnabled", func() (*types.Project, error) {
			return p.WithServicesEnabled(append(p.DisabledServiceNames(), first...)...)
		}},
		{"WithoutUnnecessaryResources", func() (*types.Project, error) { return p.WithoutUnnecessaryResources(), nil }},
		{"WithSelectedServices", func() (*types.Project, error) { return p.WithSelectedServices(first) }},
		{"WithServicesDisabled", func() (*types.Project, error) { return p.WithServicesDisabled(first...), nil }},
		{"WithImagesResolved", func() (*types.Project, error) {
			return p.WithImagesResolved(func(reference.Named) (godigest.Digest, error) {
				return godigest.Digest("sha256:" + strings.Repeat("ab", 32)), nil
			})
		}},
		{"WithServicesEnvironmentResolved", func() (*types.Project, error) { return p.WithServicesEnvironmentResolved(true) }},
		{"WithServicesLabelsResolved", func() (*types.Project, error) { return p.WithServicesLabelsResolved(true) }},
		{"WithServicesTransform", func() (*types.Project, error) {
			return p.WithServicesTransform(func(name string, sc types.ServiceConfig) (types.ServiceConfig, error) {
				sc.ContainerName = "t-" + name
				return sc, nil
			})
		}},
	}
	for _, d := range ds {
		var dp *types.Project
		var err error
		pi := core.Guard(func() { dp, err = d.fn() })
		if pi != nil {
			j.files["stack.txt"] = pi.Stack
			j.vio(map[string]string{"kind": "panic", "site": pi.Site, "class": pi.Class, "derivation": d.name}, "derivation panicked: "+pi.Value)
			continue
		}
		if err != nil || dp == nil {
			s.Add("derivation_errors", 1)
			s.Cover("derivation-error", d.name)
			continue
		}
		j.renderAll(dp, d.name)
		// a second-level derivation of the derived project
		if d.name == "WithSelectedServices" || d.name == "WithProfiles" {
			if dd := dp.WithoutUnnecessaryResources(); dd != nil {
				j.renderAll(dd, d.name+">WithoutUnnecessaryResources")
			}
		}
	}
	// the receiver must still render without content after all of the above
	j.renderAll(p, "loaded-again")
	if s.WantSample() && len(k.Objects) >= 3 {
		b, _, _ := render(p, mode{"yaml", false})
		s.Sample(map[string]any{"files": k.LD.Files, "env": k.LD.Env, "default_yaml_rendering": string(b)})
	}
}

func hasIncludedEnvConfig(k *kase) bool {
	for _, o := range k.Objects {
		if o.Section == "configs" && o.Kind == "environment" && o.Placement == "include" && o.Defined {
			return true
		}
	}
	return false
}

func errClass(msg string) string {
	for _, m := range []string{"mutually exclusive", "undefined", "conflicts with", "must be a", "additional properties", "invalid", "not found", "no such file"} {
		if strings.Contains(strings.ToLower(msg), m) {
			return m
		}
	}
	if len(msg) > 60 {
		msg = msg[:60]
	}
	return msg
}

func replay(s *core.Shard, dir string) {
	var k kase
	if err := core.ReadJSON(filepath.Join(dir, "case.json"), &k); err != nil {
		s.Inconclusive("replay: " + err.Error())
		return
	}
	s.Begin("replay")
	judge(s, &k)
}

func witness(s *core.Shard, f core.Finding) (bool, string) {
	// Witnesses are stored as complete cases; a finding reproduces when judging
	// the case yields a violation whose attributes match the finding.
	var k kase
	if err := json.Unmarshal(f.Witness, &k); err != nil {
		return false, "bad witness: " + err.Error()
	}
	rec := &recorder{}
	witnessHook = rec
	defer func() { witnessHook = nil }()
	s.Begin("witness")
	judge(s, &k)
	for _, a := range rec.attrs {
		if f.Matches(a) {
			return true, fmt.Sprintf("reproduced: %v", a)
		}
	}
	return false, "not reproduced"
}

type recorder struct{ attrs []map[string]string }

var witnessHook *recorder
