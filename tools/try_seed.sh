#!/bin/bash
# tools/try_seed.sh <PROP> <k> <demo-package-dir> [tier]
# Confirms a seeded change (builds, existing suite passes, demo fails with / passes without),
# runs the property's check against it and files it under /verif/seeded/<PROP>-<k>/.
set -u
PROP="$1"; K="$2"; PKG="$3"; TIER="${4:-quick}"
SRC="${SEED_ROOT:-/tmp/seed-out}/$PROP/$K"
DK="${DEST_K:-$K}"   # number under /verif/seeded (second-round changes are filed as 3, 4)
export GOFLAGS=-mod=mod GOPROXY=off GOSUMDB=off GOTOOLCHAIN=local
WT="/tmp/tryseed-$PROP-${DEST_K:-$K}"
git -C /repo worktree remove --force "$WT" 2>/dev/null
BASEREF="${SEED_BASE:-HEAD}"
PATCH="$SRC/patch.diff"; [ -f "$SRC/patch-ported-to-HEAD.diff" ] && PATCH="$SRC/patch-ported-to-HEAD.diff"
[ -f "/verif/seeded/$PROP-$DK/patch-ported-to-HEAD.diff" ] && PATCH="/verif/seeded/$PROP-$DK/patch-ported-to-HEAD.diff"
git -C /repo worktree add -q "$WT" "$BASEREF" || exit 2
if ! git -C "$WT" apply --check "$PATCH" 2>/dev/null && [ -n "${SEED_FALLBACK:-}" ]; then
  git -C /repo worktree remove --force "$WT"; BASEREF="$SEED_FALLBACK"; git -C /repo worktree add -q "$WT" "$BASEREF" || exit 2
  echo "FALLBACK-BASE $BASEREF (patch does not apply to HEAD)"
fi
BASE=$(git -C "$WT" rev-parse --short HEAD)
DEMOS=$(ls "$SRC" | grep -v patch.diff | grep -v README | grep '\.go$')
res() { echo "$1"; }
cd "$WT"
# demo on the clean tree
for d in $DEMOS; do cp "$SRC/$d" "$WT/$PKG/"; done
CLEAN=$(go test -count=1 ./$PKG/ 2>&1 | tail -1)
for d in $DEMOS; do rm "$WT/$PKG/$d"; done
if ! git apply "$PATCH"; then echo "PATCH DOES NOT APPLY"; git -C /repo worktree remove --force "$WT"; exit 2; fi
BUILD=$(go build ./... 2>&1 | tail -2)
SUITE=$(go test -count=1 ./... 2>&1 | grep -v "no test files" | grep -v "^ok" | head -5)
for d in $DEMOS; do cp "$SRC/$d" "$WT/$PKG/"; done
MUT=$(go test -count=1 ./$PKG/ 2>&1 | tail -1)
for d in $DEMOS; do rm "$WT/$PKG/$d"; done
echo "clean-demo: $CLEAN"; echo "build: ${BUILD:-ok}"; echo "suite-failures: ${SUITE:-none}"; echo "mutant-demo: $MUT"
cd /verif
CHK="${CHECK:-$PROP}"
OUT=$(VERIF_REPO="$WT" ./run "$CHK" "$TIER" 2>&1)
RC=$?
echo "$OUT" | grep -E "VIOLATION|SUMMARY|INCONCLUSIVE" | cut -c1-260 | head -6
echo "check exit: $RC"
DEST="/verif/seeded/$PROP-$DK"
mkdir -p "$DEST"
[ -f "$DEST/patch.diff" ] || cp "$SRC/patch.diff" "$DEST/"; for d in $DEMOS; do cp "$SRC/$d" "$DEST/"; done; [ -f "$SRC/README.md" ] && cp "$SRC/README.md" "$DEST/"; [ -f "$SRC/patch-ported-to-HEAD.diff" ] && cp "$SRC/patch-ported-to-HEAD.diff" "$DEST/"
python3 - "$DEST" "$PROP" "$DK" "$PKG" "$BASE" "$CLEAN" "$MUT" "${SUITE:-none}" "$RC" "$TIER" "$CHK" <<'PY'
import json,sys,os,re
dest,prop,k,pkg,base,clean,mut,suite,rc,tier,chk=sys.argv[1:]
readme=open(os.path.join(dest,'README.md')).read() if os.path.exists(os.path.join(dest,'README.md')) else ''
meta={"property":prop,"id":f"{prop}-{k}","base_commit":base,"demo_package_dir":pkg,
 "needs_to_manifest":json.load(open('/verif/tools/seed_notes.json')).get(f"{prop}-{k}","see README.md")+" (details in README.md, written by the independent sub-agent that produced the change)",
 "confirmed":{"existing_suite_with_change":"passes" if suite=="none" else suite,"demo_without_change":clean,"demo_with_change":mut},
 "ran":[f"git worktree of /repo at {base}; git apply patch.diff; go build ./...; go test -count=1 ./...; demo placed in {pkg}/ and run with and without the change",
        f"VERIF_REPO=<worktree> ./run {chk} {tier}"]}
old=json.load(open(os.path.join(dest,'meta.json'))) if os.path.exists(os.path.join(dest,'meta.json')) else {}
res=old.get("check_results",{})
res[chk]={"tier":tier,"exit":int(rc),"caught":rc=="1"}
meta["check_results"]=res
json.dump(meta,open(os.path.join(dest,'meta.json'),'w'),indent=1)
PY
git -C /repo worktree remove --force "$WT"
rm -f /verif/.bin/*-$(echo "$WT" | md5sum | cut -c1-8)
