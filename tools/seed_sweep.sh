#!/bin/bash
# Re-evaluates every seeded change under /verif/seeded against the current checks.
# usage: tools/seed_sweep.sh [tier]    (writes a table to stdout, updates seeded/*/meta.json)
cd /verif
TIER="${1:-quick}"
for d in seeded/*/; do
  id=$(basename "$d"); prop=${id%-*}; k=${id#*-}
  pkg=$(python3 -c "import json;print(json.load(open('$d/meta.json'))['demo_package_dir'])")
  mkdir -p /tmp/seed-out/$prop/$k
  patch=patch.diff; [ -f "$d/patch-ported-to-HEAD.diff" ] && patch=patch-ported-to-HEAD.diff
  cp "$d/$patch" /tmp/seed-out/$prop/$k/patch.diff
  cp "$d"/*.go /tmp/seed-out/$prop/$k/ 2>/dev/null; cp "$d/README.md" /tmp/seed-out/$prop/$k/ 2>/dev/null
  base=$(python3 -c "import json;print(json.load(open('$d/meta.json')).get('base_commit',''))")
  out=$(SEED_FALLBACK="$base" tools/try_seed.sh "$prop" "$k" "$pkg" "$TIER" 2>&1)
  echo "$id $(echo "$out" | grep -E 'check exit|PATCH|FALLBACK' | tr '\n' ' ') demo-with-change: $(echo "$out" | grep mutant-demo | cut -c1-40)"
done
