#!/usr/bin/env python3
"""Regenerates /verif/MANIFEST.json from the table below (kept next to the checks so the
manifest stays valid while checks are added)."""
import json, os, subprocess
ROOT = os.path.dirname(os.path.dirname(os.path.abspath(__file__)))

CHECKS = {
 "C07": dict(category="exploration",
   text="Exhaustive enumeration of the interpolation grammar up to a size bound (every derivation with <=4 items / nesting <=2 in the quick tier, <=5 / <=3 thorough) under six variable environments, plus every string over an 11-symbol alphabet up to length 5/6; each execution of template.Substitute (and a sample through the loader) is judged by a reference evaluator written from the statement. Held = no disagreement on any decided case; bounded, not a proof.",
   note="Trusts the reference evaluator as a reading of the statement; outcomes the statement leaves open (errors in unused branches, `$` before a non-name character, bare `{` in nested text) are observed for crashes only.",
   technique="runtime monitoring: reference-model monitor over exhaustive bounded template enumeration", design="4/C07"),
 "C13": dict(category="exploration",
   text="Every execution of graph.InDependencyOrder is driven by a schedule controller and judged online by a trace monitor at the public visitor boundary (exactly once, after dependencies, concurrency bound, return only after every started visit returned, first error, cyclic graphs refused before any visit, project unchanged, deadlock = global quiescence with nothing parked and no return). Completion orders are enumerated depth-first for every labelled DAG on <=4 services and ordered DAGs on 5 (x direction x max concurrency x roots x injected failures); the five verif yield points additionally park in seeded/starvation schedules; shards run from the -race build. Held = no refutation on the schedules observed (counts in evidence), not a proof over all interleavings.",
   note="Quiescence is decided from goroutine wait states (runtime.Stack), confirmed twice, never from elapsed time; the monitor trusts its own recording of S/E/R events under one mutex. With internal steps parked, 'first error' is only required to be one of the injected errors.",
   technique="runtime monitoring: online trace monitor + schedule controller over verif yield points, Go race detector", design="4/C13"),
 "C19": dict(category="exploration",
   text="Part 1: seeded groups of 2..16 goroutines load inputs of ten families (version:, extends, include, env/label files, secrets, overrides, interpolation, profiles, build/deploy) concurrently from a barrier in a -race build under four GOMAXPROCS settings and scheduler storms; oracles are the Go race detector (reports read from its log, de-duplicated by compose-go frame pair) and equality of every concurrent result with the same load done alone. Part 2: WithServicesTransform / WithImagesResolved on 0..6 services with every callback parked on the schedule controller: all release orders (complete up to 5 services quick, 6 thorough) x injected failures, judged by a trace monitor (exactly once, results are the per-service results, first error in release order, no return with callbacks running, no deadlock). Held on the executions observed.",
   note="The race detector only judges interleavings that occurred; each concurrent load gets its own Environment map. Quiescence for the fan-out controller is decided from goroutine wait states.",
   technique="runtime monitoring: Go race detector over concurrent-load workloads + result-equivalence oracle + controlled fan-out trace monitor", design="4/C19"),
 "C14": dict(category="exploration",
   text="Reflection-filled projects (333 of 335 struct fields of the model types non-zero; the two unexported flags are exercised through WithSecretContent) and loaded projects go through seeded sequences of 1..4 derivations (all public With* operations, ForEachService with a mutating callback, both marshalling modes). After every step three monitors run: receiver deep-equal to the harness's own pre-call snapshot; every field the operation does not concern deep-equal between receiver and result; an address scan proving that no map, slice backing array or pointee is reachable from both the result and the receiver (or any earlier project of the sequence), followed by overwriting everything reachable from the result and re-comparing the receiver. Thorough tier runs under the race detector. Held on the sequences observed.",
   note="Snapshots use the harness's own deep copy. Extension payload values may be shared (the statement excepts them); zero-size allocations are ignored by the address scan.",
   technique="runtime monitoring: invariant monitors (snapshot equality, pointer-identity scan, mutation probe) over reflection-generated projects and operation sequences", design="4/C14"),
 "C03": dict(category="exploration",
   text="Constructive metamorphic pairs: the generator draws a semantic value, renders the specification's long form and every alternative spelling at each of 76 attribute positions (ports: complete product of the shape grammar; volumes: 11 source kinds x mode combinations; KEY=VALUE list|mapping, extra_hosts, durations, byte sizes, shell strings, secrets/configs/devices/build/env_file/depends_on/networks/extends/healthcheck/external/ulimits), loads each with the real loader and requires identical typed projects plus direct expectations computed from the drawn value; near-miss strings outside the grammars must be rejected without a project. Quick about 28k loads, thorough about 450k.",
   note="The oracle is the generator, not a parser of mine; regions where the grammar is silent (single host port facing a container range, unknown volume mode flags, one-letter volume names) are generated for no-crash only.",
   technique="runtime monitoring: constructive metamorphic comparison of typed projects + negative near-miss cases", design="4/C03"),
 "C10": dict(category="fault_enumeration",
   text="For each of 26 consistency rules of the statement, in every spelling variant and with the offending fragment in the main file, an override, an extended base or an included file, a benign model must load and a minimally rule-breaking twin must be rejected; every directed dependency graph on <=4 services (sampled at 5) must load iff acyclic; multi-fragment models fail iff some fragment breaks a rule. Every accepted project is judged by an independent invariant checker (internal/ref/consistency.go) whose sensitivity is self-tested per rule on the same run.",
   note="Rules x placements x variants are enumerated, surroundings sampled; 5-node graphs sampled; 'consistent implies loads' is not claimed (a benign twin that fails makes its pair inconclusive).",
   technique="runtime monitoring: independent invariant checker over loaded projects + minimal rule-violation injection with placement metamorphism", design="4/C10"),
 "C15": dict(category="exploration",
   text="Every selection operation of types.Project is executed on every project with <=3 services (profile sets x labelled DAGs with required/optional edges; exhaustive in thorough, a seed-chosen fifth of the 3-service projects in quick) under a full single-operation argument grid, and on sampled histories of <=5 operations on <=6 services including loader-produced receivers; a set-based reference model written from the statement judges every step relative to its receiver (partition, closure, profiles, dangling dependencies, pruned resources, frame) and every step is repeated 8-25 times with results required to be deeply equal.",
   note="Points the statement leaves open (what a removed service still depends on, edges to already-disabled services, WithSelectedServices(nil)) are left free; cycles are not generated.",
   technique="runtime monitoring: set-based reference model after every step + repeated-execution determinism monitor", design="4/C15"),
 "C16": dict(category="exploration",
   text="Seeded layer models (each of the 64 environment and 24 label layer combinations forced per key, values that name their layer, cross-references only where all source orders agree, short/long/optional env_file syntax, present and missing files) are loaded five ways (loader, loader with discard, unresolved load with and without normalisation followed by WithServicesEnvironmentResolved). Services[*].Environment, Labels and EnvFiles are compared with a small fold written from the statement; discard and non-discard projects must be equal apart from the file references; missing required files must fail, missing optional ones must load.",
   note="Sampled models, not exhaustive over file contents. A valueless key unknown to the project environment and the order among reference sources are observed, not asserted; env-file syntax itself is C18's.",
   technique="runtime monitoring: constructive layering reference model + metamorphic discard comparison", design="4/C16"),
 "C18": dict(category="exploration",
   text="Reference-model monitoring of the env-file parser. Constructive side: seeded files of 1-6 lines drawn as semantic values over the full line grammar (3 quoting styles, 8 reference forms, CRLF/BOM/no final newline), the map returned by UnmarshalWithLookup, ParseWithLookup and GetEnvFromFile must equal the fold of the drawn values and must-fail lines must yield an error. Exhaustive side: every string over a 14-symbol alphabet up to length 5 (quick) or 6 (thorough), plus prefixes and byte mutations of rendered files: never a panic, and outcomes compared wherever an independent backward reference decides them.",
   note="Bounded and sampled. Trusts the two reference readings, which are cross-checked against each other at run time; ambiguous regions listed under Assumptions are observed for crashes only. One known finding (empty key accepted) is pinned by the existing suite.",
   technique="runtime monitoring: constructive reference-model monitor + exhaustive bounded string enumeration + mutation fuzzing", design="4/C18"),
 "C08": dict(category="exploration",
   text="Every scalar position of the tested tree's own compose-spec.json that admits a string next to a typed scalar (115 typed positions out of 318) is exercised with semantic values in all textual spellings (YAML-1.1 booleans, byte sizes, durations, decimals) through five variable forms against the canonical literal; invalid texts must fail with an error naming the resource and attribute. Generated documents relate interpolation-on to interpolation-off (dollar doubling, substitution decided by the C07 reference evaluator, dollar-bearing mapping keys), and interp.Interpolate on raw trees must leave keys, shape and non-string scalars untouched.",
   note="Sampling is schema-driven, not exhaustive over values; semantic classes the schema lacks come from a table transcribed from the specification; positions where the literal reference itself fails or panics are undecided (C01's matter).",
   technique="runtime monitoring: schema-driven metamorphic comparison (variable vs literal, on vs off) + reference evaluator + structural invariant on raw trees", design="4/C08"),
 "C12": dict(category="exploration",
   text="The complete admissible product of path attribute spelling (14 spellings of the 8 path attributes) x path shape (22 shapes: relative, absolute, home, Windows, UNC, remote, named volume) x origin (main, override, include with and without project_directory, nested include, extends across directories, two-level chain) is materialised as real directory trees and loaded. Every path field is compared with the value the generator derives from the directory it wrote the attribute into; non-path decoys and the load without resolution bound what else may change; resolving an already resolved model against a different base must be a no-op.",
   note="The product is finite and fully enumerated; companions, directory shapes and file layout are sampled. No symlinks (watch paths resolve them, which the statement does not cover); remote ResourceLoaders are not exercised.",
   technique="runtime monitoring: constructive generator with built-in oracle + differential (resolution on/off) + idempotence invariant", design="4/C12"),
 "C17": dict(category="exploration",
   text="The complete product of name sources (explicit name x COMPOSE_PROJECT_NAME in every subset of four environment layers x 21 name: shapes x directory base names) and every subset of variable definitions over the four layers are loaded through cli.NewProjectOptions / LoadProject in the 72 documented option orders (rotated over the lattice) and judged by a reference written from the statement: accepted name, its form, its visibility as COMPOSE_PROJECT_NAME in Project.Environment and in interpolated values, rejection of invalid names, and the winning definition of every variable.",
   note="An empty COMPOSE_PROJECT_NAME and the fall-through target of a last file name that normalises to empty are left open as the statement is; option orders are rotated, not crossed with the lattice.",
   technique="runtime monitoring: reference-model monitor over an exhaustively enumerated configuration lattice", design="4/C17"),
 "C20": dict(category="exploration",
   text="Seeded models with canary-valued environment secrets and configs (24 decorations with YAML-significant characters) in every placement (main, override, include, re-pointed by an override) are loaded with the real loader under 8 option sets; the project and 12 derivations of it are rendered {YAML, JSON} x {default, WithSecretContent}. Every output is byte-searched for every canary and for the private carrier key, decoded to confirm exact reproduction on request and absence otherwise, Content is checked on the project, and each receiver is dumped (unexported fields included) before and after every rendering.",
   note="Sampled, not exhaustive; a leak that transforms the value (other than YAML/JSON escaping) would be missed.",
   technique="runtime monitoring: canary/taint monitor over all renderings of loaded and derived projects", design="4/C20"),
 "C01": dict(category="fault_enumeration",
   text="Every load runs in a worker process watched for death (fatal errors, stack exhaustion), a CPU budget per case (the bounded restatement of 'never loops forever') and resident memory, with return-value monitors for recovered panics (keyed by crash site), project XOR error, planted cycles accepted and planted missing files not named. Workloads: every attribute path derived from the tested tree's JSON schema (and every node of the full example) replaced by each of 18 YAML node kinds, loaded alone / as override / as base / through extends in and across files / through include, under every single Skip*/Resolve option (thorough: all pairs and a 2% sample of all 512 combinations); seeded byte/token mutations of the repository's testdata corpus; alias, merge-key, extends, include and depends_on cycles (every digraph with a cycle on <=4 services); every subset of the files a generated project references removed, each file replaced by a directory or a dangling symlink, and (thorough) made unreadable by strace fault injection; size/depth stress.",
   note="Which error is reported is not asserted beyond 'names a missing file' and 'rejects a planted cycle'. CPU budget 30 s (quick) / 60 s (thorough) per load; an ordinary load takes about 10 ms, the slowest stress case about 3 CPU-s on this tree.",
   technique="runtime monitoring: process monitors (exit status, CPU time, RSS) + return-value invariants over schema-driven node-kind mutation, byte mutation, cycle and file-fault enumeration (strace injection)", design="4/C01"),
 "C04": dict(category="exploration",
   text="Seeded target models are split per attribute into 2-4 parts by the inverse of the stated override rules (decomposition engine with its own catalogue of 187 attribute paths transcribed from the statement: replace, map-recursive, append, append-unique, KEY=VALUE by key, keyed lists, wholesale, !reset, !override) and carried as separate files, `---` documents of one file, or a mix; the typed project loaded from the parts must equal the one loaded from the single target document. Two thirds of the cases focus one catalogue attribute round-robin (every attribute is the focus of several cases), one third split about ten attributes at once. Quick 10k, thorough 120k decompositions.",
   note="The oracle is the single-document load (merged onto an empty tree, hence immune to merge rules); the loosely worded classes (ports identity, extra_hosts, logging driver, ulimits) stay in the intersection of the readings; list order after de-duplication is not asserted.",
   technique="runtime monitoring: metamorphic comparison of typed projects over a decomposition engine (target model as oracle)", design="4/C04"),
 "C05": dict(category="exploration",
   text="The same decomposition engine lays the parts of a target service out as an extends chain of 1-4 bases (same file, other file, sub-directory, sibling directory, mixed; both extends syntaxes; shared bases; names reused across files; !reset/!override in extending members); the whole project is loaded 3-5 times with shuffled declaration order and must equal the flat document each time, inherited relative paths must be anchored at the base file's directory, no `extends` may remain, and cycles of length 1-5, missing base services and missing base files must fail.",
   note="Sampled; two recorded known findings (defaults injected into depends_on of a base in another file; a short-syntax port of a middle base beating the extender's long entry) are matched by their attribute path / input shape so that other differences still alarm.",
   technique="runtime monitoring: metamorphic comparison (extends chain vs flattened service) with repeated loads + negative cycle/missing-base cases", design="4/C05"),
 "C06": dict(category="exploration",
   text="A generated model is partitioned over a main file and 1-3 included files (nesting to depth 3, sub/parent/sibling directories, short and long include syntax, explicit or default project_directory, environment from .env, declared env_file or none) and must load to the same project as the pasted single document whose variables the generator substituted according to the stated layering (parent wins, outer wins, included .env must not leak) and whose paths it anchored at the included project directory; files reached through two routes must load; one-attribute redefinitions of each of the five resource kinds and include cycles of length 1-4 must fail.",
   note="Sampled; one recorded known finding (two include routes, one through a directory outside the project) is matched by its input shape. An identical definition in the main file and an included file, and a .env next to a declared env_file, are not asserted.",
   technique="runtime monitoring: metamorphic comparison (distributed include tree vs pasted document) + negative conflict/cycle cases", design="4/C06"),
 "C02": dict(category="exploration",
   text="Generated models biased towards everything that passes through a Go map on its way to a sequence are loaded repeatedly in one process (every repetition re-randomises all map iteration orders), interleaved with other inputs (history independence), with the declaration order of services/resources/attribute keys permuted, and once in fresh processes; outcomes (success/failure class), projects (raw reflect comparison, no normalisation) and the bytes of MarshalYAML/MarshalJSON must be identical.",
   note="Only the success/failure class of failing loads is compared (which error is reported first legitimately depends on map order); a two-way order dependence showing on half of the draws is missed with probability 2^-12 (quick) per input.",
   technique="runtime monitoring: repeated-execution determinism monitor (raw deep comparison and rendering bytes) over permutations, histories and fresh processes", design="4/C02"),
 "C09": dict(category="exploration",
   text="Models steered until every field of every model type has been seen non-zero in a loaded project (coverage of struct fields measured by reflection and reported) are rendered to YAML and JSON; each rendering must succeed, reload (same working directory, environment and name) to a project equal in name, services, networks, volumes, secrets, configs and extensions (JSON: modulo nested extensions), and re-render to identical bytes; a failing model is pruned to the minimal culprit attribute so that findings are keyed by attribute path.",
   note="Values containing `$` are never generated (the statement says nothing about escaping on reload); with ResolvePaths=false loads run from the case's working directory.",
   technique="runtime monitoring: round-trip metamorphic monitor with reflection-measured field coverage", design="4/C09"),
 "C11": dict(category="exploration",
   text="For each of 17 default rules of the statement (default network membership and declaration, resource names, implied depends_on from links / service: namespaces / volumes_from, build context/dockerfile, port protocol/mode, secret target, required flags, device count, pull_policy alias) and 5 origins (main file, override, same-file base, base in another file, included file), the model leaving the default implicit must load to the same project as the model spelling it out, and an explicit other value must be found unchanged; the `default` network must be declared iff used.",
   note="One recorded known finding (implicit build context of a base in another directory; the existing suite pins it). A dependency implied by two sources with different restart flags is not exercised.",
   technique="runtime monitoring: metamorphic comparison (implicit vs explicit spelling) across origins", design="4/C11"),
}
PLANNED = {}

def main():
    built = set(subprocess.run([os.path.join(ROOT, ".bin/check"), "list"], capture_output=True, text=True).stdout.split()) if os.path.exists(os.path.join(ROOT, ".bin/check")) else set(CHECKS)
    props = [json.loads(l)["id"] for l in open(os.path.join(ROOT, "properties.jsonl"))]
    checks, na = [], []
    for pid in props:
        c = CHECKS.get(pid)
        if c and pid in built:
            checks.append({
                "property_id": pid,
                "quick_cmd": f"./run {pid} quick",
                "thorough_cmd": f"./run {pid} thorough",
                "evidence_file": f"/verif/evidence/{pid}.json",
                "replay_cmd_template": f"./run {pid} --replay {{path}}",
                "engine": "harness",
                "level_claimed": {"category": c["category"], "text": c["text"], "design_ref": "DESIGN.md section " + c["design"]},
                "level_note": c["note"],
                "technique": c["technique"],
            })
        else:
            na.append({"property_id": pid, "reason": PLANNED.get(pid, "check not built yet in this tree (runtime-monitoring design in DESIGN.md section 4); not claimed until its monitor runs silent on the unchanged tree")})
    hook_commits = subprocess.run(["git", "-C", "/repo", "log", "--format=%H", "--grep=^verif:"], capture_output=True, text=True).stdout.split()
    m = {
        "version": 1,
        "setup_cmd": "./setup",
        "hooks": {
            "guard": "verif",
            "enable": "go build -tags verif (the harness module replaces github.com/compose-spec/compose-go/v2 by /repo and is always built with -tags verif)",
            "baseline_off_cmd": "cd /repo && GOFLAGS=-mod=mod go test -json -vet=off -count=1 -timeout 25m ./...",
            "source_commits": hook_commits,
            "add_only": True,
        },
        "engines": [{"name": "harness", "path": "/verif/harness", "serves_properties": [c["property_id"] for c in checks],
                     "kind_free_text": "Go driver + worker processes executing the real library under generated workloads with reference-model, metamorphic, invariant, trace and process monitors; race detector for the concurrency properties"}],
        "checks": checks,
        "notes": "Every check is `./run <ID> quick|thorough`; it rebuilds the harness against /repo's working tree with -tags verif, honours VERIF_SEED, rewrites evidence/<ID>.json, prints KNOWN-FINDING lines for entries of known_findings.json and exits 1 only with a VIOLATION line. Exit 3 = inconclusive (observation floor not met), exit 2 = build failed.",
        "not_applicable": na,
    }
    json.dump(m, open(os.path.join(ROOT, "MANIFEST.json"), "w"), indent=1)
    print("checks:", [c["property_id"] for c in checks], "not claimed:", [n["property_id"] for n in na])

if __name__ == "__main__":
    main()
