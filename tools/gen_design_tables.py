#!/usr/bin/env python3
"""Regenerates the generated blocks of DESIGN.md (findings table, seeded-change table)
from known_findings.json and seeded/*/meta.json."""
import json, glob, os, re
ROOT = os.path.dirname(os.path.dirname(os.path.abspath(__file__)))

def findings():
    d = json.load(open(os.path.join(ROOT, 'known_findings.json')))['findings']
    out = ["| id | property | status | commit | what failed |", "|---|---|---|---|---|"]
    for f in sorted(d, key=lambda f: (f['property'], f['status'] != 'known', f['id'])):
        what = f['what'].replace('|', '\\|').replace('\n', ' ')
        if len(what) > 330:
            what = what[:327] + '...'
        out.append(f"| {f['id']} | {f['property']} | {f['status']} | {f.get('commit','—')} | {what} |")
    return '\n'.join(out)

def seeded():
    notes = json.load(open(os.path.join(ROOT, 'tools', 'seed_notes.json')))
    out = ["| seeded change | breaks | needs, in order to manifest | existing suite | caught by (tier) |", "|---|---|---|---|---|"]
    for d in sorted(glob.glob(os.path.join(ROOT, 'seeded', '*/'))):
        m = json.load(open(os.path.join(d, 'meta.json')))
        res = m.get('check_results', {})
        caught = [f"{k} ({v['tier']})" for k, v in res.items() if v.get('caught')]
        missed = [k for k, v in res.items() if not v.get('caught')]
        c = ', '.join(caught) if caught else '**missed**'
        if m.get('note'):
            c += ' — see note in meta.json'
        out.append(f"| {m['id']} | {m['property']} | {notes.get(m['id'], '')} | passes | {c} |")
    return '\n'.join(out)

def main():
    p = os.path.join(ROOT, 'DESIGN.md')
    s = open(p).read()
    for name, fn in (('FINDINGS', findings), ('SEEDED', seeded)):
        a, b = f'<!-- BEGIN GENERATED {name} -->', f'<!-- END GENERATED {name} -->'
        if a in s and b in s:
            s = s[:s.index(a) + len(a)] + '\n' + fn() + '\n' + s[s.index(b):]
    open(p, 'w').write(s)

if __name__ == '__main__':
    main()
